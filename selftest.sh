#!/bin/bash
# Determinism proof: the same run seeds, executed in many OS processes at several
# GOMAXPROCS values, first-in-process and after other runs, must produce
# byte-identical event-log hashes, violation counts and image counts.
# usage: selftest.sh [N seeds per property, default 40] [processes per setting, default 4]
N="${1:-40}"; P="${2:-4}"
set -u
WORK=$(mktemp -d "${VERIF_SCRATCH:-/tmp}/nutsim-selftest.XXXXXX") || exit 2
trap 'rm -rf "$WORK"' EXIT
/verif/build.sh "$WORK/nutsim" plain || exit 2
/verif/build.sh "$WORK/nutsim.race" race || exit 2
fail=0; total=0
run() { # name binary gomaxprocs warm
  GOMAXPROCS=$3 "$2" selftest -n "$N" -warm "$4" > "$WORK/$1.out" 2>"$WORK/$1.err" || echo "selftest process failed: $1" >&2
}
i=0
for gmp in 1 4 16; do
  for warm in 0 25; do
    for p in $(seq 1 "$P"); do
      i=$((i+1)); run "plain.$i" "$WORK/nutsim" $gmp $warm &
    done
    wait
  done
done
ref="$WORK/plain.1.out"
for f in "$WORK"/plain.*.out; do
  total=$((total+1))
  if ! cmp -s "$ref" "$f"; then fail=$((fail+1)); echo "DIVERGENCE: $f"; diff "$ref" "$f" | head -5; fi
done
# race build: scheduled properties only, suppressions as in the checks
printf 'race_top:verifsim/\n' > "$WORK/supp"
j=0
for gmp in 1 4 16; do
  for p in 1 2; do
    j=$((j+1))
    for prop in C14 C17; do
      GOMAXPROCS=$gmp GORACE="log_path=$WORK/racelog.$j halt_on_error=0 exitcode=0 suppressions=$WORK/supp" "$WORK/nutsim.race" selftest -prop $prop -n "$N" >> "$WORK/race.$j.out" 2>/dev/null &
    done
    wait
  done
done
for f in "$WORK"/race.*.out; do
  total=$((total+1))
  sort "$f" > "$f.s"
  if ! cmp -s <(sort "$WORK/race.1.out") "$f.s"; then fail=$((fail+1)); echo "DIVERGENCE (race build): $f"; diff <(sort "$WORK/race.1.out") "$f.s" | head -5; fi
done
lines=$(wc -l < "$ref")
nd=$(grep -c " ND " "$ref")
echo "runs compared by verdict only because they pass a Go map-iteration site (ND): $nd of $lines per process"
echo "selftest: $total process outputs compared ($lines runs each in the plain build: all properties x $N seeds; GOMAXPROCS 1/4/16; first-in-process and after 25 other runs), divergences: $fail"
echo "map iteration in /repo (outside the seams):"; grep -n "range .*\.M\[\|range tx.ReservedStoreTxIDIdxes\|for .* := range .*map" /repo/*.go /repo/ds/*/*.go 2>/dev/null | grep -v _test | head -20
[ "$fail" = 0 ]
