#!/bin/bash
# seedtest.sh <patch.diff> <secs> <ID>...   apply a seeded change to /repo, run the given checks, undo it.
PATCH="$1"; SECS="$2"; shift 2
cd /repo || exit 2
if [ -n "$(git status --porcelain)" ]; then echo "seedtest: /repo not clean" >&2; exit 2; fi
git apply "$PATCH" || { echo "seedtest: patch does not apply"; exit 2; }
trap 'cd /repo && git checkout -q -- . && git clean -fdq' EXIT
BIN=$(mktemp -d /tmp/seedtest.XXXXXX)
/verif/build.sh $BIN/nutsim plain || { echo "seedtest: build failed"; rm -rf $BIN; exit 2; }
case " $* " in *" C14 "*|*" C17 "*) /verif/build.sh $BIN/nutsim.race race || { echo "seedtest: race build failed"; rm -rf $BIN; exit 2; }; export NUTSIM_RACE_BIN=$BIN/nutsim.race;; esac
for id in "$@"; do
  out=$($BIN/nutsim check -prop $id -tier quick -secs $SECS 2>&1)
  rc=$?
  echo "== $id rc=$rc $(echo "$out" | grep -c '^VIOLATION') violation(s)"
  echo "$out" | grep -A3 '^VIOLATION' | head -8 | cut -c1-300
done
rm -rf $BIN
# evidence files were rewritten by these runs against a modified tree: restore the committed ones
cd /verif && git checkout -q -- evidence 2>/dev/null
rm -f /verif/replays/*.json
