#!/bin/bash
# seedtest.sh <patch.diff> <secs> <ID>...   run the given checks (quick tier, <secs> each) against a scratch
# worktree of /repo with a seeded change applied.  Works on private copies of /verif and /repo
# (VERIF_DIR / VERIF_REPO): /repo's working tree and /verif/evidence are never touched.
PATCH="$(realpath "$1")"; SECS="$2"; shift 2
export GOFLAGS=-mod=mod GOPROXY=off GOSUMDB=off GOTOOLCHAIN=local
SCR=$(mktemp -d /tmp/seedtest.XXXXXX)
trap 'git -C /repo worktree remove --force '$SCR'/repo 2>/dev/null; git -C /repo worktree prune; rm -rf '$SCR EXIT
git -C /repo worktree add -q --detach $SCR/repo HEAD || exit 2
git -C $SCR/repo apply "$PATCH" || { echo "seedtest: patch does not apply"; exit 2; }
mkdir -p $SCR/verif
rsync -a --exclude .git --exclude bin --exclude evidence --exclude replays --exclude seeded --exclude benign /verif/ $SCR/verif/
mkdir -p $SCR/verif/evidence $SCR/verif/replays
export VERIF_DIR=$SCR/verif VERIF_REPO=$SCR/repo
$SCR/verif/build.sh $SCR/nutsim plain || { echo "seedtest: build failed"; exit 2; }
case " $* " in *" C14 "*|*" C17 "*) $SCR/verif/build.sh $SCR/nutsim.race race || { echo "seedtest: race build failed"; exit 2; }; export NUTSIM_RACE_BIN=$SCR/nutsim.race;; esac
for id in "$@"; do
  out=$($SCR/nutsim check -prop $id -tier quick -secs $SECS 2>&1)
  rc=$?
  echo "== $id rc=$rc $(echo "$out" | grep -c '^VIOLATION') violation(s)"
  echo "$out" | grep -A3 '^VIOLATION\|^check:' | head -8 | cut -c1-300
done
exit 0
