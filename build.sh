#!/bin/bash
# build.sh <out-binary> [race]
# Snapshots /repo's current working tree into a scratch copy with the import
# paths rewritten to the simulator shims, and builds the simulation runner
# against it.  Exit 2 on any build trouble.  The scratch copy is removed.
set -u
OUT="$(realpath -m "$1")"; MODE="${2:-plain}"
export GOFLAGS=-mod=mod GOPROXY=off GOSUMDB=off GOTOOLCHAIN=local CGO_ENABLED=1
VERIF="${VERIF_DIR:-$(cd "$(dirname "$0")" && pwd)}"
PARENT="${VERIF_SCRATCH:-${TMPDIR:-/tmp}}"
SCRATCH=$(mktemp -d "$PARENT/nutsim-build.XXXXXX") || exit 2
trap 'rm -rf "$SCRATCH"' EXIT
mkdir -p "$VERIF/bin"
cd $VERIF/sim || exit 2
if [ ! -x $VERIF/bin/simrewrite ] || [ cmd/simrewrite/main.go -nt $VERIF/bin/simrewrite ]; then
  go build -o $VERIF/bin/simrewrite ./cmd/simrewrite || { echo "build: simrewrite failed" >&2; exit 2; }
fi
$VERIF/bin/simrewrite "${VERIF_REPO:-/repo}" "$SCRATCH/nutsdb" >/dev/null || { echo "build: rewrite failed" >&2; exit 2; }
sed "s#=> /repo#=> $SCRATCH/nutsdb#" go.mod > "$SCRATCH/go.mod"
cp go.sum "$SCRATCH/go.sum"
RACE=""
[ "$MODE" = race ] && RACE="-race"
go build $RACE -trimpath -modfile="$SCRATCH/go.mod" -o "$OUT" ./cmd/nutsim 2>"$SCRATCH/build.err" || { echo "build: go build failed" >&2; cat "$SCRATCH/build.err" >&2; exit 2; }
exit 0
