#!/usr/bin/env python3-vt
# Validates MANIFEST.json and every evidence file against the schemas.
import json, sys, glob, jsonschema
ok = True
m = json.load(open('/verif/MANIFEST.json'))
try:
    jsonschema.validate(m, json.load(open('/root/.vp/MANIFEST.schema.json')))
    print('MANIFEST ok:', len(m['checks']), 'checks,', len(m.get('not_applicable', [])), 'not applicable')
except Exception as e:
    ok = False; print('MANIFEST INVALID:', e)
sch = json.load(open('/root/.vp/EVIDENCE.schema.json'))
for f in sorted(glob.glob('/verif/evidence/*.json')):
    try:
        ev = json.load(open(f)); jsonschema.validate(ev, sch)
        print(f, 'ok', ev['tier'], ev['coverage'].get('evaluations'), ev['coverage'].get('distinct_nontrivial'))
    except Exception as e:
        ok = False; print(f, 'INVALID:', str(e)[:300])
sys.exit(0 if ok else 1)
