#!/bin/bash
# confirm.sh <dir-with-patch.diff+demo_test.go> <seeded-id> <property> "<needs>" "<checks that catch it>"
# Confirms a seeded change in a scratch worktree: compiles, existing suite passes with it,
# the demonstration fails with it and passes without it.  Writes /verif/seeded/<id>/.
SRC="$1"; ID="$2"; PROP="$3"; NEEDS="$4"; CAUGHT="$5"
export GOFLAGS=-mod=mod GOPROXY=off GOSUMDB=off GOTOOLCHAIN=local
WT=/tmp/confirm.$$
git -C /repo worktree add -q --detach $WT HEAD || exit 2
trap 'git -C /repo worktree remove --force '$WT' 2>/dev/null; rm -rf '$WT EXIT
cd $WT
git apply "$SRC/patch.diff" || { echo "patch does not apply to current HEAD"; exit 3; }
go build ./... || { echo "does not compile"; exit 3; }
suite=$(go test -vet=off -count=1 ./... 2>&1 | tail -5)
echo "$suite" | grep -q FAIL && { echo "suite FAILS with the change:"; echo "$suite"; exit 3; }
demo=$(ls $SRC/*_test.go 2>/dev/null | head -1)
[ -z "$demo" ] && { echo "no demo test"; exit 3; }
pkg=$(grep -m1 '^package ' $demo | awk '{print $2}')
cp $demo ./zz_demo_test.go
names=$(grep -o '^func Test[A-Za-z0-9_]*' zz_demo_test.go | sed 's/func //' | paste -sd'|')
with=$(go test $DEMO_FLAGS -vet=off -count=1 -run "^($names)\$" . 2>&1 | tail -15)
echo "$with" | grep -q -- "--- FAIL\|^FAIL\|panic:" || { echo "demo does NOT fail with the change:"; echo "$with"; exit 3; }
rm zz_demo_test.go; git checkout -q -- . ; cp $demo ./zz_demo_test.go
without=$(go test $DEMO_FLAGS -vet=off -count=1 -run "^($names)\$" . 2>&1 | tail -5)
echo "$without" | grep -q "^ok" || { echo "demo does NOT pass without the change:"; echo "$without"; exit 3; }
mkdir -p /verif/seeded/$ID
cp $SRC/patch.diff /verif/seeded/$ID/patch.diff
cp $demo /verif/seeded/$ID/demo_test.go.txt
[ -f $SRC/NOTES.md ] && cp $SRC/NOTES.md /verif/seeded/$ID/NOTES.md
python3 - "$ID" "$PROP" "$NEEDS" "$CAUGHT" "$names" "$(git -C /repo rev-parse --short HEAD)" <<'PY'
import json,sys
i,prop,needs,caught,names,head=sys.argv[1:7]
json.dump({"id":i,"breaks_property":prop,"needs_to_manifest":needs,
 "confirmed":{"repo_head":head,"compiles":True,"existing_suite_passes_with_change":True,
   "demo_tests":names.split("|"),"demo_fails_with_change":True,"demo_passes_without_change":True,
   "demo_flags":__import__("os").environ.get("DEMO_FLAGS",""),"how":"scratch git worktree of /repo HEAD; git apply patch.diff; go build ./...; go test -vet=off -count=1 ./...; demo copied as zz_demo_test.go and run with -run; patch reverted and demo run again"},
 "caught_by":caught.split(",") if caught else [],
 "demo_file":"demo_test.go.txt (renamed so that nothing under /verif compiles it by accident)"},
 open("/verif/seeded/%s/meta.json"%i,"w"),indent=1)
PY
echo "confirmed $ID"
