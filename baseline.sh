#!/bin/bash
# Runs the repository's pinned test suite (guard off: there are no hooks in /repo,
# so this is literally the unchanged test command) and prints pass/fail counts.
export GOFLAGS=-mod=mod GOPROXY=off GOSUMDB=off GOTOOLCHAIN=local
cd /repo || exit 2
out=$(go test -mod=mod -json -vet=off -count=1 -timeout 25m ./... 2>&1)
pass=$(echo "$out" | grep -c '"Action":"pass","Package":"[^"]*","Test":"[^"/]*"')
fail=$(echo "$out" | grep -c '"Action":"fail","Package":"[^"]*","Test":"[^"/]*"')
echo "baseline: pass=$pass fail=$fail"
if [ "$fail" != 0 ] || [ "$pass" -lt 129 ]; then
  echo "$out" | grep '"Action":"fail"' | head -20
  exit 1
fi
exit 0
