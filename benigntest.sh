#!/bin/bash
# benigntest.sh <patch.diff> [secs] [IDs...]   run the checks (default: ALL, quick tier, shortened) against
# a scratch worktree of /repo with a behaviour-preserving change applied.  Works on private copies of
# /verif and /repo (VERIF_DIR / VERIF_REPO), so it can run beside other checks.  Any VIOLATION here is a
# false alarm of the machinery (or the change is not behaviour-preserving after all): investigate by hand.
PATCH="$(realpath "$1")"; SECS="${2:-20}"; shift 2 2>/dev/null
IDS="$*"; [ -z "$IDS" ] && IDS="C01 C02 C03 C04 C05 C06 C07 C08 C09 C10 C11 C12 C13 C14 C15 C16 C17 C18 C19 C20 C21 C22"
export GOFLAGS=-mod=mod GOPROXY=off GOSUMDB=off GOTOOLCHAIN=local
SCR=$(mktemp -d /tmp/benign.XXXXXX)
trap 'git -C /repo worktree remove --force '$SCR'/repo 2>/dev/null; git -C /repo worktree prune; rm -rf '$SCR EXIT
git -C /repo worktree add -q --detach $SCR/repo HEAD || exit 2
git -C $SCR/repo apply "$PATCH" || { echo "benigntest: patch does not apply"; exit 2; }
mkdir -p $SCR/verif
rsync -a --exclude .git --exclude bin --exclude evidence --exclude replays --exclude seeded /verif/ $SCR/verif/
mkdir -p $SCR/verif/evidence $SCR/verif/replays
export VERIF_DIR=$SCR/verif VERIF_REPO=$SCR/repo
$SCR/verif/build.sh $SCR/nutsim plain || { echo "benigntest: build failed"; exit 2; }
$SCR/verif/build.sh $SCR/nutsim.race race || { echo "benigntest: race build failed"; exit 2; }
export NUTSIM_RACE_BIN=$SCR/nutsim.race
bad=0
for id in $IDS; do
  out=$($SCR/nutsim check -prop $id -tier quick -secs $SECS 2>&1)
  rc=$?
  nv=$(echo "$out" | grep -c '^VIOLATION')
  if [ $rc -ne 0 ] || [ $nv -ne 0 ]; then
    bad=1
    echo "== $id rc=$rc $nv violation(s)"
    echo "$out" | grep -A3 '^VIOLATION\|trouble' | head -12 | cut -c1-400
    mkdir -p /tmp/benign-replays; cp $SCR/verif/replays/$id-*.json /tmp/benign-replays/ 2>/dev/null
  fi
done
[ $bad -eq 0 ] && echo "benigntest: all checks quiet ($IDS)"
exit $bad
