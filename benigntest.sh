#!/bin/bash
# benigntest.sh <patch.diff> [secs]   apply a behaviour-preserving change to /repo, run ALL checks
# (quick tier, shortened), undo it.  Any VIOLATION here is a false alarm of the machinery
# (or the change is not behaviour-preserving after all): to be investigated by hand.
PATCH="$1"; SECS="${2:-20}"
cd /repo || exit 2
if [ -n "$(git status --porcelain)" ]; then echo "benigntest: /repo not clean" >&2; exit 2; fi
git apply "$PATCH" || { echo "benigntest: patch does not apply"; exit 2; }
trap 'cd /repo && git checkout -q -- . && git clean -fdq' EXIT
BIN=$(mktemp -d /tmp/benign.XXXXXX)
/verif/build.sh $BIN/nutsim plain || { echo "benigntest: build failed"; rm -rf $BIN; exit 2; }
/verif/build.sh $BIN/nutsim.race race || { echo "benigntest: race build failed"; rm -rf $BIN; exit 2; }
export NUTSIM_RACE_BIN=$BIN/nutsim.race
bad=0
for id in C01 C02 C03 C04 C05 C06 C07 C08 C09 C10 C11 C12 C13 C14 C15 C16 C17 C18 C19 C20 C21 C22; do
  out=$($BIN/nutsim check -prop $id -tier quick -secs $SECS 2>&1)
  rc=$?
  nv=$(echo "$out" | grep -c '^VIOLATION')
  if [ $rc -ne 0 ] || [ $nv -ne 0 ]; then
    bad=1
    echo "== $id rc=$rc $nv violation(s)"
    echo "$out" | grep -A3 '^VIOLATION\|trouble' | head -12 | cut -c1-400
    mkdir -p /tmp/benign-replays; cp /verif/replays/$id-*.json /tmp/benign-replays/ 2>/dev/null
  fi
done
[ $bad -eq 0 ] && echo "benigntest: all 22 checks quiet"
rm -rf $BIN
cd /verif && git checkout -q -- evidence 2>/dev/null
rm -f /verif/replays/*.json
exit $bad
