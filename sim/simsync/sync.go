// Package simsync replaces "sync" in the scratch copy of the system under
// test.  Mutexes ask the simulator's scheduler before taking the real mutex
// they wrap, so the scheduler decides who runs and the race detector still
// sees the system's genuine happens-before edges.
package simsync

import (
	"sync"

	"verifsim/core"
)

type (
	WaitGroup = sync.WaitGroup
	Once      = sync.Once
	Map       = sync.Map
	Pool      = sync.Pool
	Cond      = sync.Cond
	Locker    = sync.Locker
)

func NewCond(l Locker) *Cond { return sync.NewCond(l) }

type Mutex struct{ mu sync.Mutex }

func (m *Mutex) Lock() {
	core.LockAcquire(m, true, false)
	m.mu.Lock()
}

func (m *Mutex) Unlock() {
	if !core.CheckUnlock(m, true) {
		panic("sync: unlock of unlocked mutex")
	}
	m.mu.Unlock()
	core.LockRelease(m, true)
}

func (m *Mutex) TryLock() bool {
	if m.mu.TryLock() {
		m.mu.Unlock()
		m.Lock()
		return true
	}
	return false
}

type RWMutex struct{ mu sync.RWMutex }

func (m *RWMutex) Lock() {
	core.LockAcquire(m, true, true)
	m.mu.Lock()
}

func (m *RWMutex) Unlock() {
	if !core.CheckUnlock(m, true) {
		panic("sync: Unlock of unlocked RWMutex")
	}
	m.mu.Unlock()
	core.LockRelease(m, true)
}

func (m *RWMutex) RLock() {
	core.LockAcquire(m, false, true)
	m.mu.RLock()
}

func (m *RWMutex) RUnlock() {
	if !core.CheckUnlock(m, false) {
		panic("sync: RUnlock of unlocked RWMutex")
	}
	m.mu.RUnlock()
	core.LockRelease(m, false)
}

func (m *RWMutex) RLocker() Locker { return (*rlocker)(m) }

type rlocker RWMutex

func (r *rlocker) Lock()   { (*RWMutex)(r).RLock() }
func (r *rlocker) Unlock() { (*RWMutex)(r).RUnlock() }
