// Package simrand replaces "math/rand" in the scratch copy of the system
// under test: the package-level functions draw from a stream derived from the
// run seed.
package simrand

import (
	"math/rand"

	"verifsim/core"
)

type (
	Rand   = rand.Rand
	Source = rand.Source
)

func New(src Source) *Rand        { return rand.New(src) }
func NewSource(seed int64) Source { return rand.NewSource(seed) }

func u64() uint64 {
	if core.W == nil {
		return 0
	}
	if core.W.Sched == nil {
		core.W.Stats.Probes["mathrand-draws"]++
	}
	return core.W.Rand.Uint64()
}

func Seed(seed int64) {}

func Int63() int64   { return int64(u64() >> 1) }
func Uint32() uint32 { return uint32(u64() >> 32) }
func Uint64() uint64 { return u64() }
func Int31() int32   { return int32(u64() >> 33) }
func Int() int       { return int(uint(u64()) >> 1) }

func Int63n(n int64) int64 {
	if n <= 0 {
		panic("invalid argument to Int63n")
	}
	return int64(u64()>>1) % n
}

func Int31n(n int32) int32 {
	if n <= 0 {
		panic("invalid argument to Int31n")
	}
	return int32(u64()>>33) % n
}

func Intn(n int) int {
	if n <= 0 {
		panic("invalid argument to Intn")
	}
	return int(u64()>>1) % n
}

func Float64() float64 { return float64(u64()>>11) / float64(1<<53) }
func Float32() float32 { return float32(u64()>>40) / float32(1<<24) }

func Perm(n int) []int {
	m := make([]int, n)
	for i := 0; i < n; i++ {
		j := Intn(i + 1)
		m[i] = m[j]
		m[j] = i
	}
	return m
}

func Shuffle(n int, swap func(i, j int)) {
	for i := n - 1; i > 0; i-- {
		j := Intn(i + 1)
		swap(i, j)
	}
}

func Read(p []byte) (int, error) {
	for i := range p {
		p[i] = byte(u64())
	}
	return len(p), nil
}

func NormFloat64() float64 { return Float64()*2 - 1 }
func ExpFloat64() float64  { return Float64() }
