package run

import (
	"fmt"
	"sort"

	"github.com/xujiajun/nutsdb"
	"verifsim/core"
	"verifsim/model"
	"verifsim/prog"
	"verifsim/simmmap"
)

// TxRec is one transaction (or Merge / Backup call) of a scheduled run, with
// its invoke / lock-grant / return stamps in the simulator's global event
// sequence.
type TxRec struct {
	Task     int
	DB       int
	StepID   int
	Kind     string
	Writable bool
	Ops      []prog.Op
	Res      []prog.Res
	Err      string
	Panic    string
	Invoke   int64
	Grant    int64
	Return   int64
	Done     bool
}

// ConcRunner executes a program whose steps are distributed over tasks under
// the seeded cooperative scheduler.
type ConcRunner struct {
	W     *core.World
	P     *prog.Program
	DBs   []*nutsdb.DB
	Opts  []nutsdb.Options
	Hist  []*TxRec   // all records (assembled after the run)
	hist  [][]*TxRec // per task, so that tasks never touch a shared slice
	Sched *core.Sched
	Viol  []Violation
	U     *model.Universe
	Obs   []prog.Op

	// AckedGrant is the lock-grant stamp of the latest write transaction
	// whose Update has returned success (crash images of scheduled runs).
	AckedGrant int64
	merging    int
}

func (c *ConcRunner) viol(class string, step int, sig, format string, args ...interface{}) {
	c.Viol = append(c.Viol, Violation{Class: class, StepID: step, Op: -1, Msg: fmt.Sprintf(format, args...), Sig: class + "/" + sig})
}

// NewConcRunner prepares the world, opens the databases (before scheduling starts).
func NewConcRunner(seed uint64, p *prog.Program, pre ...func(w *core.World)) *ConcRunner {
	w := core.NewWorld(seed)
	w.Clock.Tick = p.Cfg.Tick
	w.Faults.Faults = p.Faults
	for _, f := range pre {
		f(w) // e.g. a snapshot policy, which must be in place before Open
	}
	core.Use(w)
	core.ResetSeqLocks()
	simmmap.Reset()
	for i := 0; i < p.Cfg.RandSkip; i++ {
		w.Rand.Uint64()
	}
	c := &ConcRunner{W: w, P: p}
	c.U = model.UniverseOf(p)
	c.Obs = c.U.ObserveOps(p.Cfg.IdxMode == 2)
	n := p.DBs
	if n <= 0 {
		n = 1
	}
	for i := 0; i < n; i++ {
		cfg := p.Cfg
		cfg.Dir = fmt.Sprintf("/db%d", i)
		opt := optionsOf(cfg)
		db, err, pan := OpenDB(opt)
		if pan != "" || err != nil {
			c.viol("open-failed", -1, "Open", "Open failed: %v %s", err, pan)
			return c
		}
		c.DBs = append(c.DBs, db)
		c.Opts = append(c.Opts, opt)
	}
	return c
}

// Run schedules all tasks.  schedSeed drives the scheduler's choices unless
// the program carries an explicit schedule (replay).
func (c *ConcRunner) Run(schedRng *core.Rng, switchP float64) {
	if len(c.DBs) == 0 {
		return
	}
	s := c.W.NewSched(schedRng)
	s.SwitchP = switchP
	if len(c.P.Schedule) > 0 {
		s.Replay = c.P.Schedule
	}
	c.Sched = s
	c.W.SnapInfo = func() (int, int) { return int(c.AckedGrant), int(s.CurSeq()) }
	ntasks := c.P.Tasks
	if ntasks <= 0 {
		ntasks = 1
	}
	c.hist = make([][]*TxRec, ntasks)
	byTask := make([][]*prog.Step, ntasks)
	for i := range c.P.Steps {
		st := &c.P.Steps[i]
		t := st.Task % ntasks
		byTask[t] = append(byTask[t], st)
	}
	for t := 0; t < ntasks; t++ {
		steps := byTask[t]
		tid := t
		s.Go(fmt.Sprintf("task%d", tid), func() {
			for _, st := range steps {
				c.step(tid, st)
			}
		})
	}
	s.Run()
	for _, h := range c.hist {
		c.Hist = append(c.Hist, h...)
	}
	for _, rec := range c.Hist {
		if rec.Panic != "" {
			c.viol("panic", rec.StepID, rec.Kind, "%s panicked: %s", rec.Kind, rec.Panic)
		}
	}
	for _, t := range s.Tasks() {
		if t.Panic != nil {
			c.viol("panic", -1, "task", "task %s panicked: %v\n%s", t.Name, t.Panic, firstNutsdbFrame(t.Stack))
		}
	}
	if s.Deadlock != "" {
		c.viol("deadlock", -1, "deadlock", "deadlock: %s", s.Deadlock)
	}
}

func firstNutsdbFrame(stack string) string {
	return stack
}

//go:norace
func (c *ConcRunner) step(tid int, st *prog.Step) {
	s := c.Sched
	dbi := st.DB % len(c.DBs)
	db := c.DBs[dbi]
	rec := &TxRec{Task: tid, DB: dbi, StepID: st.ID, Kind: st.K, Ops: st.Ops, Writable: st.K == prog.STx}
	rec.Invoke = s.NextSeq()
	c.hist[tid] = append(c.hist[tid], rec)
	switch st.K {
	case prog.STx, prog.SView:
		body := func(tx *nutsdb.Tx) error {
			rec.Grant = s.Cur().LastRWGrant
			for _, op := range st.Ops {
				rec.Res = append(rec.Res, Do(tx, op))
			}
			if st.End == "fnerr" {
				return errFn
			}
			return nil
		}
		var err error
		pan := Safe(func() {
			if rec.Writable {
				err = db.Update(body)
			} else {
				err = db.View(body)
			}
		})
		rec.Panic = pan
		if err != nil {
			rec.Err = err.Error()
		} else if rec.Writable && pan == "" && rec.Grant > c.AckedGrant {
			// stores through a mapping are attributed to the time before the
			// acknowledgement
			c.W.Disk.FlushMmap()
			c.AckedGrant = rec.Grant
		}
	case prog.SMerge:
		var err error
		c.merging++
		c.W.Phase = "merge"
		rec.Panic = Safe(func() { err = db.Merge() })
		c.merging--
		if c.merging == 0 {
			c.W.Phase = ""
		}
		if err != nil {
			rec.Err = err.Error()
		}
	case prog.SClose:
		var err error
		rec.Panic = Safe(func() { err = db.Close() })
		if err != nil {
			rec.Err = err.Error()
		}
	case prog.SBackup:
		var err error
		rec.Panic = Safe(func() { err = db.Backup(st.Dir) })
		rec.Grant = s.Cur().LastRWGrant
		if err != nil {
			rec.Err = err.Error()
		}
	}
	rec.Return = s.NextSeq()
	rec.Done = true
}

// ByGrant returns the finished transactions of one database in lock-grant order.
func (c *ConcRunner) ByGrant(db int) []*TxRec {
	var out []*TxRec
	for _, r := range c.Hist {
		if r.DB == db && (r.Kind == prog.STx || r.Kind == prog.SView || r.Kind == prog.SBackup) && r.Done && r.Grant > 0 {
			out = append(out, r)
		}
	}
	sort.SliceStable(out, func(i, j int) bool { return out[i].Grant < out[j].Grant })
	return out
}

// ObserveDB runs the full observation on one database.
func (c *ConcRunner) ObserveDB(db *nutsdb.DB) ([]prog.Res, string) {
	rr := &Runner{W: c.W, P: c.P, DB: db, ObsOps: c.Obs}
	return rr.Observe()
}
