// Package run executes programs against the real nutsdb code (built from the
// rewritten scratch copy) inside a simulated world, next to the reference model.
package run

import (
	"fmt"
	"math"
	"runtime"
	"sort"
	"strconv"
	"strings"
	"time"

	"github.com/xujiajun/nutsdb"
	"github.com/xujiajun/nutsdb/ds/zset"
	"verifsim/core"
	"verifsim/model"
	"verifsim/prog"
)

func errRes(err error) prog.Res { return prog.Res{Err: true, Msg: err.Error()} }

func okRes(err error) prog.Res {
	if err != nil {
		return errRes(err)
	}
	return prog.Res{V: "ok"}
}

func encEntries(es nutsdb.Entries) string {
	ks := make([]string, len(es))
	vs := make([]string, len(es))
	for i, e := range es {
		if e == nil {
			ks[i], vs[i] = "<nil-entry>", "<nil-entry>"
			continue
		}
		ks[i], vs[i] = string(e.Key), string(e.Value)
	}
	return model.EncPairs(ks, vs)
}

func encBytesList(l [][]byte) string {
	xs := make([]string, len(l))
	for i, b := range l {
		xs[i] = string(b)
	}
	return model.EncList(xs)
}

func encBytesSet(l [][]byte) string {
	xs := make([]string, len(l))
	for i, b := range l {
		xs[i] = string(b)
	}
	return model.EncSet(xs)
}

func encNode(n *zset.SortedSetNode) string {
	if n == nil {
		return "nil"
	}
	return model.EncNode(n.Key(), float64(n.Score()), string(n.Value))
}

func encNodes(ns []*zset.SortedSetNode) string {
	parts := make([]string, len(ns))
	for i, n := range ns {
		parts[i] = encNode(n)
	}
	return model.EncNodes(parts)
}

func bvals(vs []string) [][]byte {
	out := make([][]byte, len(vs))
	for i, v := range vs {
		out[i] = []byte(v)
	}
	return out
}

func special(f float64, sel int) float64 {
	switch sel {
	case 1:
		return math.NaN()
	case 2:
		return math.Inf(1)
	case 3:
		return math.Inf(-1)
	}
	return f
}

// PanicInfo renders a recovered panic with the innermost nutsdb frame.
func PanicInfo(r interface{}) string {
	buf := make([]byte, 32768)
	st := string(buf[:runtime.Stack(buf, false)])
	fn := ""
	lines := strings.Split(st, "\n")
	// skip frames until the panic call, then take the first nutsdb frame
	seenPanic := false
	for _, l := range lines {
		if strings.HasPrefix(l, "panic(") {
			seenPanic = true
			continue
		}
		if seenPanic && strings.Contains(l, "github.com/xujiajun/nutsdb") && !strings.HasPrefix(l, "\t") {
			fn = l
			if i := strings.LastIndex(fn, "("); i > 0 {
				fn = fn[:i]
			}
			break
		}
	}
	return fmt.Sprintf("%v @ %s", r, fn)
}

// Do runs one API call on tx and canonicalises the result.  Panics are
// recovered and reported in the result.
func Do(tx *nutsdb.Tx, op prog.Op) (res prog.Res) {
	defer func() {
		if r := recover(); r != nil {
			if _, ok := r.(core.ErrSelfDeadlock); ok {
				res = prog.Res{Panic: fmt.Sprintf("%v", r)}
				return
			}
			res = prog.Res{Panic: PanicInfo(r)}
		}
	}()
	key := []byte(op.Key)
	switch op.K {
	case "adv":
		core.W.Clock.Advance(time.Duration(op.TS) * time.Second)
		return prog.Res{V: "ok"}
	case "put":
		return okRes(tx.Put(op.B, key, []byte(model.ValueOf(op)), op.TTL))
	case "putts":
		ts := uint64(core.W.Clock.Unix() + op.TS)
		return okRes(tx.PutWithTimestamp(op.B, key, []byte(model.ValueOf(op)), op.TTL, ts))
	case "del":
		return okRes(tx.Delete(op.B, key))
	case "get":
		e, err := tx.Get(op.B, key)
		if err != nil {
			return errRes(err)
		}
		if e == nil {
			return prog.Res{V: "<nil-entry>"}
		}
		return prog.Res{V: model.Q(string(e.Key)) + "=" + model.Q(string(e.Value))}
	case "getall":
		es, err := tx.GetAll(op.B)
		if err != nil {
			return errRes(err)
		}
		return prog.Res{V: encEntries(es)}
	case "range":
		es, err := tx.RangeScan(op.B, key, []byte(op.Key2))
		if err != nil {
			return errRes(err)
		}
		return prog.Res{V: encEntries(es)}
	case "prefix":
		es, _, err := tx.PrefixScan(op.B, key, op.I, op.J)
		if err != nil {
			return errRes(err)
		}
		return prog.Res{V: encEntries(es)}
	case "psearch":
		es, _, err := tx.PrefixSearchScan(op.B, key, op.Re, op.I, op.J)
		if err != nil {
			return errRes(err)
		}
		return prog.Res{V: encEntries(es)}

	// ---- list
	case "rpush":
		return okRes(tx.RPush(op.B, key, bvals(op.Vals)...))
	case "lpush":
		return okRes(tx.LPush(op.B, key, bvals(op.Vals)...))
	case "lpop":
		v, err := tx.LPop(op.B, key)
		if err != nil {
			return errRes(err)
		}
		return prog.Res{V: model.Q(string(v))}
	case "rpop":
		v, err := tx.RPop(op.B, key)
		if err != nil {
			return errRes(err)
		}
		return prog.Res{V: model.Q(string(v))}
	case "lpeek":
		v, err := tx.LPeek(op.B, key)
		if err != nil {
			return errRes(err)
		}
		return prog.Res{V: model.Q(string(v))}
	case "rpeek":
		v, err := tx.RPeek(op.B, key)
		if err != nil {
			return errRes(err)
		}
		return prog.Res{V: model.Q(string(v))}
	case "lsize":
		n, err := tx.LSize(op.B, key)
		if err != nil {
			return errRes(err)
		}
		return prog.Res{V: strconv.Itoa(n)}
	case "lrange":
		l, err := tx.LRange(op.B, key, op.I, op.J)
		if err != nil {
			return errRes(err)
		}
		return prog.Res{V: encBytesList(l)}
	case "lrem":
		n, err := tx.LRem(op.B, key, op.I, []byte(op.Val))
		if err != nil {
			return errRes(err)
		}
		return prog.Res{V: strconv.Itoa(n)}
	case "lset":
		return okRes(tx.LSet(op.B, key, op.I, []byte(op.Val)))
	case "ltrim":
		return okRes(tx.LTrim(op.B, key, op.I, op.J))

	// ---- set
	case "sadd":
		return okRes(tx.SAdd(op.B, key, bvals(op.Vals)...))
	case "srem":
		return okRes(tx.SRem(op.B, key, bvals(op.Vals)...))
	case "spop":
		v, err := tx.SPop(op.B, key)
		if err != nil {
			return errRes(err)
		}
		return prog.Res{V: model.Q(string(v))}
	case "sismember":
		ok, err := tx.SIsMember(op.B, key, []byte(op.Val))
		if err != nil {
			return errRes(err)
		}
		return prog.Res{V: strconv.FormatBool(ok)}
	case "saremembers":
		ok, err := tx.SAreMembers(op.B, key, bvals(op.Vals)...)
		if err != nil {
			return errRes(err)
		}
		return prog.Res{V: strconv.FormatBool(ok)}
	case "smembers":
		l, err := tx.SMembers(op.B, key)
		if err != nil {
			return errRes(err)
		}
		return prog.Res{V: encBytesSet(l)}
	case "scard":
		n, err := tx.SCard(op.B, key)
		if err != nil {
			return errRes(err)
		}
		return prog.Res{V: strconv.Itoa(n)}
	case "shaskey":
		ok, err := tx.SHasKey(op.B, key)
		if err != nil {
			return errRes(err)
		}
		return prog.Res{V: strconv.FormatBool(ok)}
	case "sdiff1":
		l, err := tx.SDiffByOneBucket(op.B, key, []byte(op.Key2))
		if err != nil {
			return errRes(err)
		}
		return prog.Res{V: encBytesSet(l)}
	case "sdiff2":
		l, err := tx.SDiffByTwoBuckets(op.B, key, op.B2, []byte(op.Key2))
		if err != nil {
			return errRes(err)
		}
		return prog.Res{V: encBytesSet(l)}
	case "sunion1":
		l, err := tx.SUnionByOneBucket(op.B, key, []byte(op.Key2))
		if err != nil {
			return errRes(err)
		}
		return prog.Res{V: encBytesSet(l)}
	case "sunion2":
		l, err := tx.SUnionByTwoBuckets(op.B, key, op.B2, []byte(op.Key2))
		if err != nil {
			return errRes(err)
		}
		return prog.Res{V: encBytesSet(l)}
	case "smove1":
		ok, err := tx.SMoveByOneBucket(op.B, key, []byte(op.Key2), []byte(op.Val))
		if err != nil {
			return errRes(err)
		}
		return prog.Res{V: strconv.FormatBool(ok)}
	case "smove2":
		ok, err := tx.SMoveByTwoBuckets(op.B, key, op.B2, []byte(op.Key2), []byte(op.Val))
		if err != nil {
			return errRes(err)
		}
		return prog.Res{V: strconv.FormatBool(ok)}

	// ---- sorted set
	case "zadd":
		return okRes(tx.ZAdd(op.B, key, special(op.F, op.SF), []byte(op.Val)))
	case "zrem":
		return okRes(tx.ZRem(op.B, op.Key))
	case "zremrank":
		return okRes(tx.ZRemRangeByRank(op.B, op.I, op.J))
	case "zpopmax":
		n, err := tx.ZPopMax(op.B)
		if err != nil {
			return errRes(err)
		}
		return prog.Res{V: encNode(n)}
	case "zpopmin":
		n, err := tx.ZPopMin(op.B)
		if err != nil {
			return errRes(err)
		}
		return prog.Res{V: encNode(n)}
	case "zpeekmax":
		n, err := tx.ZPeekMax(op.B)
		if err != nil {
			return errRes(err)
		}
		return prog.Res{V: encNode(n)}
	case "zpeekmin":
		n, err := tx.ZPeekMin(op.B)
		if err != nil {
			return errRes(err)
		}
		return prog.Res{V: encNode(n)}
	case "zcard":
		n, err := tx.ZCard(op.B)
		if err != nil {
			return errRes(err)
		}
		return prog.Res{V: strconv.Itoa(n)}
	case "zmembers":
		m, err := tx.ZMembers(op.B)
		if err != nil {
			return errRes(err)
		}
		keys := make([]string, 0, len(m))
		for k := range m {
			keys = append(keys, k)
		}
		sort.Strings(keys)
		parts := make([]string, len(keys))
		for i, k := range keys {
			n := m[k]
			if n == nil {
				parts[i] = model.Q(k) + ":nil"
			} else if n.Key() != k {
				parts[i] = model.Q(k) + ":KEYMISMATCH:" + encNode(n)
			} else {
				parts[i] = encNode(n)
			}
		}
		return prog.Res{V: model.EncNodes(parts)}
	case "zscore":
		f, err := tx.ZScore(op.B, key)
		if err != nil {
			return errRes(err)
		}
		return prog.Res{V: model.EncScore(f)}
	case "zgetbykey":
		n, err := tx.ZGetByKey(op.B, key)
		if err != nil {
			return errRes(err)
		}
		return prog.Res{V: encNode(n)}
	case "zrank":
		n, err := tx.ZRank(op.B, key)
		if err != nil {
			return errRes(err)
		}
		return prog.Res{V: strconv.Itoa(n)}
	case "zrevrank":
		n, err := tx.ZRevRank(op.B, key)
		if err != nil {
			return errRes(err)
		}
		return prog.Res{V: strconv.Itoa(n)}
	case "zrangebyrank":
		ns, err := tx.ZRangeByRank(op.B, op.I, op.J)
		if err != nil {
			return errRes(err)
		}
		return prog.Res{V: encNodes(ns)}
	case "zrangebyscore", "zcount":
		var opts *zset.GetByScoreRangeOptions
		if !op.NoOp {
			opts = &zset.GetByScoreRangeOptions{Limit: op.Lim, ExcludeStart: op.ExS, ExcludeEnd: op.ExE}
		}
		lo, hi := special(op.F, op.SF%10), special(op.F2, op.SF/10)
		if op.K == "zcount" {
			n, err := tx.ZCount(op.B, lo, hi, opts)
			if err != nil {
				return errRes(err)
			}
			return prog.Res{V: strconv.Itoa(n)}
		}
		ns, err := tx.ZRangeByScore(op.B, lo, hi, opts)
		if err != nil {
			return errRes(err)
		}
		return prog.Res{V: encNodes(ns)}
	}
	return prog.Res{Err: true, Msg: "harness: unknown op " + op.K}
}
