package run

import (
	"errors"
	"fmt"
	"runtime/metrics"
	"strings"
	"time"

	"github.com/xujiajun/nutsdb"
	"verifsim/core"
	"verifsim/model"
	"verifsim/prog"
	"verifsim/simmmap"
)

// Violation is one oracle failure.
type Violation struct {
	Class  string `json:"class"` // oracle clause: op, observe, commit-error, open-failed, panic, reopen-diff, recovery, ...
	StepID int    `json:"step"`
	Op     int    `json:"op"`
	Msg    string `json:"msg"`
	Sig    string `json:"sig"` // stable signature (class + API + essentials)
}

func (v Violation) String() string {
	return fmt.Sprintf("[%s] step=%d op=%d %s", v.Class, v.StepID, v.Op, v.Msg)
}

// Options select model semantics and which oracles run.
type Options struct {
	Deferred      bool // model: reads see the state at transaction start, writes applied at commit
	ObserveEvery  bool // full observation vs. model after every step
	ObserveAt     map[int]bool
	CompareReopen bool // model-independent: observation before Close == after Open
	KeepLog       bool
	NoModel       bool // do not judge op results (C20-style runs)
	Sparse        bool
	// BoundaryPL > 0: after every transaction / Merge / reopen step, when
	// nothing is in flight, take that many power-loss images of the present
	// state (sparse mode: its commits are not crash-atomic, known finding K3,
	// but what was acknowledged with SyncEnable must survive a power loss).
	BoundaryPL int
}

// StepTrace records what one step did.
type StepTrace struct {
	StepID int
	Res    []prog.Res
	Err    string // result of Update/View/Merge/...
	Acked  bool
}

// Runner executes one program sequentially.
type Runner struct {
	W      *core.World
	P      *prog.Program
	Opt    Options
	DB     *nutsdb.DB
	DBOpt  nutsdb.Options
	segNow int64 // SegmentSize in force (0 = the program's), see Step.Seg

	M           *model.State
	StateAt     []*model.State       // StateAt[i] = state after i acknowledged write transactions
	CommitState map[int]*model.State // StepID of a successful write tx -> state after it
	U           *model.Universe
	ObsOps      []prog.Op

	// Alt is the second acceptable state after a transaction whose outcome is
	// in doubt (injected sync error after a complete write): S+T, while M stays S.
	Alt *model.State

	Viol   []Violation
	Trace  []StepTrace
	Dead   bool // the DB object is unusable (after a panic that may have left the lock held)
	Closed bool // the DB was closed by a close step (calls on a closed database are part of C20)
	// ND is set when the run passed one of the two places where nutsdb follows
	// Go's randomised map iteration order, which no seam controls: SPop on a set
	// with more than one member, and a sparse-mode commit that rotates two or
	// more segments (order of the index files it writes).  Verdicts do not
	// depend on it (the model follows SPop's choice); event logs may.
	ND     bool
	Opened bool

	Probes map[string]int

	lastTxMS int64
}

// liveTTLKeys counts the keys of the model that carry a TTL and are live now.
func (r *Runner) liveTTLKeys() int {
	return r.M.LiveTTL(r.W.Clock.Unix())
}

func optionsOf(c prog.Config) nutsdb.Options {
	dir := c.Dir
	if dir == "" {
		dir = "/db"
	}
	return nutsdb.Options{
		Dir:                  dir,
		EntryIdxMode:         nutsdb.EntryIdxMode(c.IdxMode),
		RWMode:               nutsdb.RWMode(c.RWMode),
		SegmentSize:          c.SegSize,
		NodeNum:              1,
		SyncEnable:           c.Sync,
		StartFileLoadingMode: nutsdb.RWMode(c.LoadMode),
	}
}

// NewRunner prepares a world and a runner for p.
func NewRunner(seed uint64, p *prog.Program, opt Options) *Runner {
	w := core.NewWorld(seed)
	w.Log.Keep = opt.KeepLog
	w.Clock.Tick = p.Cfg.Tick
	w.Faults.Faults = p.Faults
	core.Use(w)
	core.ResetSeqLocks()
	simmmap.Reset()
	for i := 0; i < p.Cfg.RandSkip; i++ {
		w.Rand.Uint64()
	}
	r := &Runner{W: w, P: p, Opt: opt, DBOpt: optionsOf(p.Cfg), M: model.New(), CommitState: map[int]*model.State{}, Probes: map[string]int{}}
	r.Opt.Sparse = p.Cfg.IdxMode == 2
	r.StateAt = []*model.State{r.M}
	r.U = model.UniverseOf(p)
	r.ObsOps = r.U.ObserveOps(r.Opt.Sparse)
	return r
}

// NewRunnerOnWorld prepares a runner for p on an existing world (a mounted image).
func NewRunnerOnWorld(w *core.World, p *prog.Program, opt Options) *Runner {
	r := &Runner{W: w, P: p, Opt: opt, DBOpt: optionsOf(p.Cfg), M: model.New(), CommitState: map[int]*model.State{}, Probes: map[string]int{}}
	r.Opt.Sparse = p.Cfg.IdxMode == 2
	r.StateAt = []*model.State{r.M}
	r.U = model.UniverseOf(p)
	r.ObsOps = r.U.ObserveOps(r.Opt.Sparse)
	return r
}

func (r *Runner) viol(class string, step, op int, sig, format string, args ...interface{}) {
	r.Viol = append(r.Viol, Violation{Class: class, StepID: step, Op: op, Msg: fmt.Sprintf(format, args...), Sig: class + "/" + sig})
}

// OpenDB opens the database with panics recovered.
func OpenDB(opt nutsdb.Options) (db *nutsdb.DB, err error, pan string) {
	defer func() {
		if r := recover(); r != nil {
			pan = PanicInfo(r)
		}
	}()
	before := heapAllocated()
	db, err = nutsdb.Open(opt)
	if d := heapAllocated() - before; d > SimulatedRAM {
		// a failing allocation, the only way this sandbox can model it: the
		// simulated machine has 1 GiB; an Open that asks for more dies there
		if db != nil {
			Safe(func() { db.Close() })
			db = nil
		}
		err = nil
		pan = fmt.Sprintf("simulated out-of-memory: Open allocated %d MiB on a machine with %d MiB (a length field read from disk was trusted before its checksum?) @ github.com/xujiajun/nutsdb.Open", d>>20, SimulatedRAM>>20)
	}
	return
}

// SimulatedRAM is the memory of the simulated machine: no single Open of the
// small directories used here may allocate more.
const SimulatedRAM = 1 << 30

var allocSample = []metrics.Sample{{Name: "/gc/heap/allocs:bytes"}}

// heapAllocated returns the cumulative bytes allocated on the heap (cheap: no
// stop-the-world).
func heapAllocated() uint64 {
	metrics.Read(allocSample)
	if allocSample[0].Value.Kind() != metrics.KindUint64 {
		return 0
	}
	return allocSample[0].Value.Uint64()
}

func (r *Runner) open(stepID int) bool {
	r.W.Phase = "open"
	db, err, pan := OpenDB(r.DBOpt)
	r.W.Disk.FlushMmap()
	r.W.Phase = ""
	if pan != "" {
		r.viol("open-panic", stepID, -1, "Open", "Open panicked: %s", pan)
		r.Dead = true
		return false
	}
	if err != nil {
		r.viol("open-failed", stepID, -1, "Open", "Open failed: %v", err)
		r.Dead = true
		return false
	}
	r.DB = db
	r.Dead = false
	r.Opened = true
	return true
}

var errFn = errors.New("harness: transaction function returns an error")

// Safe runs f with panics recovered.
func Safe(f func()) (pan string) {
	defer func() {
		if r := recover(); r != nil {
			pan = PanicInfo(r)
		}
	}()
	f()
	return
}

// Observe runs the full observation in one read-only transaction.
func (r *Runner) Observe() ([]prog.Res, string) {
	out := make([]prog.Res, len(r.ObsOps))
	var verr error
	pan := Safe(func() {
		verr = r.DB.View(func(tx *nutsdb.Tx) error {
			for i, op := range r.ObsOps {
				out[i] = Do(tx, op)
			}
			return nil
		})
	})
	if pan != "" {
		return out, "panic: " + pan
	}
	if verr != nil {
		return out, "view error: " + verr.Error()
	}
	return out, ""
}

func (r *Runner) observeAndJudge(stepID int, where string) {
	if r.Dead || r.DB == nil {
		return
	}
	got, bad := r.Observe()
	if bad != "" {
		r.viol("observe", stepID, -1, "View", "%s: observation failed: %s", where, bad)
		return
	}
	if err := r.M.CheckObservation(r.ObsOps, got, r.W.Clock.Unix()); err != nil {
		if r.Alt != nil {
			if err2 := r.Alt.CheckObservation(r.ObsOps, got, r.W.Clock.Unix()); err2 == nil {
				r.W.Stats.Probes["in-doubt-tx-visible"]++
				return
			}
		}
		r.viol("observe", stepID, -1, where, "%s: %v", where, err)
	}
}

func (r *Runner) syncFaultInStep(id int) bool {
	for _, f := range r.W.Faults.Fired {
		if f.StepID == id && (f.Kind == "syncfail-durable" || f.Kind == "syncfail-lost") {
			return true
		}
	}
	return false
}

// hasBig tells whether a transaction carries an entry that cannot fit into a
// segment (its commit must fail); long values that do fit do not count.
func (r *Runner) hasBig(ops []prog.Op) bool {
	for _, o := range ops {
		seg := r.segNow
		if seg == 0 {
			seg = r.P.Cfg.SegSize
		}
		if o.Big > 0 && int64(o.Big)+42 > seg {
			return true
		}
	}
	return false
}

func (r *Runner) faultInStep(id int) bool {
	for _, f := range r.P.Faults {
		if f.StepID == id && f.Kind != "crash" && f.Kind != "torn" && f.Kind != "powerloss" {
			return true
		}
	}
	return false
}

// boundaryImages takes power-loss images of the quiescent state after a step:
// per Options.BoundaryPL, or those named by explicit faults of class "now"
// (replay).
func (r *Runner) boundaryImages(st *prog.Step) {
	if r.Dead || r.Closed || (st.K != prog.STx && st.K != prog.SMerge && st.K != prog.SReopen) {
		return
	}
	explicit := false
	for _, f := range r.P.Faults {
		if f.Kind != "crash" && f.Kind != "torn" && f.Kind != "powerloss" {
			continue
		}
		explicit = true
		if f.Class == "now" && f.StepID == st.ID {
			r.W.SnapNow(f.Kind, f.Arg)
			r.W.Stats.Faults[f.Kind]++
		}
	}
	if explicit || r.Opt.BoundaryPL <= 0 {
		return
	}
	for v := 0; v < r.Opt.BoundaryPL; v++ {
		arg := v
		if v >= 2 {
			arg = 2 + int(core.Mix(r.W.Seed, uint64(st.ID), uint64(v))%(1<<20))
		}
		r.W.SnapNow("powerloss", arg)
		r.W.Stats.Faults["powerloss"]++
	}
}

// Run executes all steps.
func (r *Runner) Run() {
	if !r.open(-1) {
		return
	}
	for i := range r.P.Steps {
		st := &r.P.Steps[i]
		if r.Dead && st.K != prog.SRestart && st.K != prog.SAdvance {
			break
		}
		r.W.BeginStep(st.ID)
		truncs := r.W.Stats.IOByKind["trunc"]
		r.step(st)
		if r.P.Cfg.IdxMode == 2 && r.W.Stats.IOByKind["trunc"]-truncs >= 2 {
			r.ND = true
		}
		r.boundaryImages(st)
		r.W.EndStep()
		if r.Opt.ObserveEvery || r.Opt.ObserveAt[st.ID] {
			r.observeAndJudge(st.ID, "after "+st.K)
		}
	}
}

func (r *Runner) step(st *prog.Step) {
	tr := StepTrace{StepID: st.ID}
	defer func() { r.Trace = append(r.Trace, tr) }()
	switch st.K {
	case prog.STx, prog.SView:
		r.txStep(st, &tr)
	case prog.SAdvance:
		before := r.liveTTLKeys()
		r.W.Clock.Advance(time.Duration(st.D))
		if after := r.liveTTLKeys(); after < before {
			r.W.Stats.Probes["ttl-expiry-crossed-by-clock-move"] += before - after
		}
	case prog.SReopen:
		r.reopen(st, &tr)
	case prog.SMerge:
		r.merge(st, &tr)
	case prog.SRestart:
		r.restart(st, &tr)
	case prog.SBackup:
		r.backup(st, &tr)
	case prog.SClose:
		r.closeDB(st.ID)
		r.Closed = true
	case prog.SOpen:
		if r.Closed {
			r.W.Clock.Advance(time.Millisecond)
			r.open(st.ID)
			r.Closed = false
		}
	case "nilfn":
		var e1, e2 error
		if pan := Safe(func() { e1 = r.DB.Update(nil); e2 = r.DB.View(nil) }); pan != "" {
			r.viol("panic", st.ID, -1, "Update(nil)", "Update(nil)/View(nil) panicked: %s", pan)
			r.Dead = true
		} else if e1 == nil || e2 == nil {
			r.viol("op", st.ID, -1, "Update(nil)", "Update(nil)/View(nil) returned nil")
		}
	}
}

func (r *Runner) txStep(st *prog.Step, tr *StepTrace) {
	writable := st.K == prog.STx
	mtx := r.M.Begin(r.Opt.Deferred)
	tr.Res = make([]prog.Res, 0, len(st.Ops))
	var handle *nutsdb.Tx
	body := func(tx *nutsdb.Tx) error {
		handle = tx
		for i, op := range st.Ops {
			now := r.W.Clock.Unix()
			if op.K == "spop" && (r.Opt.NoModel || len(r.M.Set[op.B][op.Key]) > 1) {
				r.ND = true
			}
			got := Do(tx, op)
			tr.Res = append(tr.Res, got)
			if got.Panic != "" {
				r.viol("panic", st.ID, i, op.K, "%s panicked: %s", op.String(), got.Panic)
				continue
			}
			if r.Opt.NoModel {
				continue
			}
			if err := mtx.Step(op, now, got, writable); err != nil {
				if r.Alt != nil && !writable && r.Alt.Eval(op, now).Check(got) == nil {
					// explained by the other admissible outcome of an in-doubt transaction
					continue
				}
				r.viol("op", st.ID, i, op.K, "%s %v", op.String(), err)
			}
		}
		if st.End == "fnerr" {
			return errFn
		}
		if writable {
			r.W.InFlight = st.ID
		}
		return nil
	}
	var err error
	var pan string
	switch {
	case st.End == "rollback":
		pan = Safe(func() {
			var tx *nutsdb.Tx
			tx, err = r.DB.Begin(writable)
			if err != nil {
				return
			}
			body(tx)
			r.W.InFlight = -1
			err = tx.Rollback()
			if err == nil {
				err = errFn // treated as "not committed"
			}
		})
	case st.End == "manual":
		// the manual API: Begin, calls, Commit, and Rollback if Commit fails
		pan = Safe(func() {
			var tx *nutsdb.Tx
			tx, err = r.DB.Begin(writable)
			if err != nil {
				return
			}
			if err = body(tx); err != nil {
				tx.Rollback()
				return
			}
			if err = tx.Commit(); err != nil {
				if rerr := tx.Rollback(); rerr != nil {
					err = rerr
				}
			}
		})
	case writable:
		pan = Safe(func() { err = r.DB.Update(body) })
	default:
		pan = Safe(func() { err = r.DB.View(body) })
	}
	r.W.Disk.FlushMmap()
	r.W.InFlight = -1
	if pan != "" {
		r.viol("panic", st.ID, -1, "Commit", "transaction panicked outside an API call (Commit?): %s", pan)
		r.Dead = true
		tr.Err = "panic: " + pan
		return
	}
	if len(st.After) > 0 && handle != nil {
		for i, op := range st.After {
			got := Do(handle, op)
			if got.Panic != "" {
				r.viol("panic", st.ID, 1000+i, op.K, "%s on a finished transaction panicked: %s", op.String(), got.Panic)
			} else if !got.Err {
				r.viol("after-closed", st.ID, 1000+i, op.K, "%s on a finished transaction returned %s instead of an error", op.String(), got.String())
			}
		}
		var e2, e3 error
		if p := Safe(func() { e2 = handle.Commit(); e3 = handle.Rollback() }); p != "" {
			r.viol("panic", st.ID, 2000, "Commit", "Commit/Rollback on a finished transaction panicked: %s", p)
			r.Dead = true
		} else if e2 == nil || e3 == nil {
			r.viol("after-closed", st.ID, 2000, "Commit", "Commit/Rollback on a finished transaction returned nil")
		}
	}
	if err != nil && err != errFn && writable && r.syncFaultInStep(st.ID) {
		// outcome in doubt: all-or-nothing, in the process and after reopen
		r.Alt = mtx.Commit()
	}
	if err != nil {
		tr.Err = err.Error()
		if err != errFn && (st.End == "" || st.End == "manual") && writable && !r.hasBig(st.Ops) && !r.faultInStep(st.ID) && !r.Opt.NoModel {
			r.viol("commit-error", st.ID, -1, "Commit", "Update returned an unexpected error: %v", err)
		}
		if err != errFn && !writable && (st.End == "" || st.End == "manual") {
			r.viol("commit-error", st.ID, -1, "View", "View returned an unexpected error: %v", err)
		}
		return
	}
	if writable {
		if ms := r.W.Clock.NowNS() / 1e6; ms == r.lastTxMS {
			r.W.Stats.Probes["write-tx-in-same-millisecond-as-previous"]++
		} else {
			r.lastTxMS = ms
		}
		r.M = mtx.Commit()
		r.W.Acked++
		r.StateAt = append(r.StateAt, r.M)
		r.CommitState[st.ID] = r.M
		tr.Acked = true
	}
}

func (r *Runner) closeDB(stepID int) bool {
	var err error
	pan := Safe(func() { err = r.DB.Close() })
	if pan != "" {
		r.viol("panic", stepID, -1, "Close", "Close panicked: %s", pan)
		r.Dead = true
		return false
	}
	if err != nil {
		if !r.Closed {
			r.viol("close-failed", stepID, -1, "Close", "Close failed: %v", err)
		}
		return false
	}
	return true
}

func diffObs(ops []prog.Op, a, b []prog.Res) string {
	for i := range ops {
		if a[i].Err != b[i].Err || (!a[i].Err && a[i].V != b[i].V) {
			return fmt.Sprintf("%s: before=%s after=%s", ops[i].String(), a[i].String(), b[i].String())
		}
	}
	return ""
}

func (r *Runner) reopen(st *prog.Step, tr *StepTrace) {
	if st.Seg > 0 {
		// the application was reconfigured between two runs
		r.DBOpt.SegmentSize = st.Seg
		r.segNow = st.Seg
	}
	if r.Closed {
		r.W.Clock.Advance(time.Millisecond)
		r.open(st.ID)
		r.Closed = false
		return
	}
	// a real reopen is not instantaneous; hold the clock across Close/Open
	// itself so that TTL cannot explain a difference.
	r.W.Clock.Advance(time.Millisecond)
	var before []prog.Res
	if r.Opt.CompareReopen {
		var bad string
		before, bad = r.Observe()
		if bad != "" {
			r.viol("observe", st.ID, -1, "View", "observation before Close failed: %s", bad)
			before = nil
		}
	}
	if !r.closeDB(st.ID) {
		return
	}
	if !r.open(st.ID) {
		return
	}
	if before != nil {
		after, bad := r.Observe()
		if bad != "" {
			r.viol("reopen-diff", st.ID, -1, "View", "observation after Open failed: %s", bad)
		} else if d := diffObs(r.ObsOps, before, after); d != "" {
			r.viol("reopen-diff", st.ID, -1, "reopen", "result changed across Close/Open: %s", d)
		}
	}
}

func (r *Runner) merge(st *prog.Step, tr *StepTrace) {
	var err error
	r.W.Phase = "merge"
	pan := Safe(func() { err = r.DB.Merge() })
	r.W.Disk.FlushMmap()
	r.W.Phase = ""
	if pan != "" {
		r.viol("panic", st.ID, -1, "Merge", "Merge panicked: %s", pan)
		r.Dead = true
		return
	}
	if err != nil {
		tr.Err = err.Error()
		// Merge may refuse (fewer than two files, sparse mode, closed database)
		// and may fail when an I/O fault is injected into it; any other failure
		// is a Merge that cannot do its work on a healthy system
		msg := err.Error()
		legit := r.Closed || r.faultInStep(st.ID) || strings.Contains(msg, "at least 2") || strings.Contains(msg, "not support mode") || strings.Contains(msg, "db is closed")
		if !legit {
			r.viol("merge-failed", st.ID, -1, "Merge", "Merge failed although no fault was injected: %v", err)
		}
	}
}

func (r *Runner) backup(st *prog.Step, tr *StepTrace) {
	var err error
	pan := Safe(func() { err = r.DB.Backup(st.Dir) })
	if pan != "" {
		r.viol("panic", st.ID, -1, "Backup", "Backup panicked: %s", pan)
		r.Dead = true
		return
	}
	if err != nil {
		tr.Err = err.Error()
	}
}

// restart is a dirty restart between steps: the DB object is thrown away, the
// disk becomes a crash image of the present state, time passes, and the
// database is opened again.
func (r *Runner) restart(st *prog.Step, tr *StepTrace) {
	r.W.Disk.Mount(r.W.Disk.Root) // everything volatile survives a process crash
	r.DB = nil
	simmmap.Reset()
	core.ResetSeqLocks()
	r.W.Clock.Advance(time.Millisecond)
	r.W.Stats.Faults["dirty-restart"]++
	r.open(st.ID)
}

// Finish closes the database (ignoring errors) so that images can be mounted.
func (r *Runner) Finish() {
	if r.DB != nil && !r.Dead && !r.Closed {
		Safe(func() { r.DB.Close() })
	}
	r.DB = nil
}
