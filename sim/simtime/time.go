// Package simtime replaces "time" in the scratch copy of the system under
// test: Now/Since/Until/Sleep/After read or move the simulated clock; types,
// constants and pure functions are the real ones.
package simtime

import (
	"time"

	"verifsim/core"
)

type (
	Time     = time.Time
	Duration = time.Duration
	Month    = time.Month
	Weekday  = time.Weekday
	Location = time.Location
	Timer    = time.Timer
	Ticker   = time.Ticker
)

const (
	Nanosecond  = time.Nanosecond
	Microsecond = time.Microsecond
	Millisecond = time.Millisecond
	Second      = time.Second
	Minute      = time.Minute
	Hour        = time.Hour

	RFC3339     = time.RFC3339
	RFC3339Nano = time.RFC3339Nano
	RFC1123     = time.RFC1123
	ANSIC       = time.ANSIC
	Kitchen     = time.Kitchen

	January  = time.January
	December = time.December
)

var (
	UTC   = time.UTC
	Local = time.Local
)

func Now() Time {
	if core.W == nil {
		return time.Unix(0, 0)
	}
	return core.W.Clock.Read()
}

func Since(t Time) Duration { return Now().Sub(t) }
func Until(t Time) Duration { return t.Sub(Now()) }

func Unix(sec, nsec int64) Time { return time.Unix(sec, nsec) }
func UnixMilli(ms int64) Time   { return time.UnixMilli(ms) }
func UnixMicro(us int64) Time   { return time.UnixMicro(us) }

func Date(year int, month Month, day, hour, min, sec, nsec int, loc *Location) Time {
	return time.Date(year, month, day, hour, min, sec, nsec, loc)
}
func Parse(layout, value string) (Time, error)    { return time.Parse(layout, value) }
func ParseDuration(s string) (Duration, error)    { return time.ParseDuration(s) }
func FixedZone(name string, offset int) *Location { return time.FixedZone(name, offset) }
func LoadLocation(name string) (*Location, error) { return time.LoadLocation(name) }

// Sleep advances simulated time; it never blocks.
func Sleep(d Duration) {
	if core.W != nil && d > 0 {
		core.W.Clock.Advance(d)
	}
	core.Yield("sleep")
}

// After fires immediately after advancing simulated time (the system under
// test has no timers today; this keeps a changed tree compiling).
func After(d Duration) <-chan Time {
	Sleep(d)
	ch := make(chan Time, 1)
	ch <- Now()
	return ch
}

func Tick(d Duration) <-chan Time { return After(d) }

// ParseInLocation and friends: pure.
func ParseInLocation(layout, value string, loc *Location) (Time, error) {
	return time.ParseInLocation(layout, value, loc)
}

// AfterFunc runs f at once after advancing simulated time by d (the system
// under test has no timers today; this keeps a changed tree compiling and
// deterministic).
func AfterFunc(d Duration, f func()) *Timer {
	Sleep(d)
	f()
	t := time.NewTimer(time.Hour)
	t.Stop()
	return t
}

// NewTimer returns a timer that has already fired, after advancing simulated time by d.
func NewTimer(d Duration) *Timer {
	Sleep(d)
	return time.NewTimer(0)
}

// NewTicker is not modelled: a ticker of the real clock would break replay.
func NewTicker(d Duration) *Ticker {
	panic("simtime: NewTicker is not modelled by the simulator")
}
