package gen

import (
	"verifsim/core"
	"verifsim/prog"
)

// ConcParams tunes the generator of scheduled (multi-task) programs.
type ConcParams struct {
	Modes    []int
	Segs     []int64
	MinTasks int
	MaxTasks int
	MaxDBs   int
	MaxSteps int // per task
	DS       []string
	Merge    bool // one task calls Merge (possibly several times)
	Backup   bool // one task calls Backup into a fresh directory
	NoList   bool
	NoZPop   bool
	Close    bool // one task calls Close (and possibly Close again) while the others run
}

// Conc generates a program whose steps are spread over tasks.  Write
// transactions never depend on their own earlier writes (C13 must not leak
// in), every written value is unique, read-only transactions read the same
// keys more than once (snapshot stability), no TTL.
func Conc(r *core.Rng, p ConcParams) *prog.Program {
	g := &G{R: r}
	pg := &prog.Program{Cfg: Config(r, p.Modes, p.Segs)}
	pg.Tasks = r.Range(p.MinTasks, p.MaxTasks)
	pg.DBs = r.Range(1, p.MaxDBs)
	g.Keys = subset(r, []string{"a", "ab", "b", "k1", "k2", "c"}, 2, 4)
	g.Bkts = []string{"b", "ba"}
	ds := p.DS
	if pg.Cfg.IdxMode != 0 {
		ds = []string{"kv"}
	}
	if pg.Cfg.IdxMode == 2 {
		// known finding K6 (sparse mode indexes by bucket+key): equal-length bucket names
		g.Bkts = []string{"bx", "by"}
	}
	mp := MixParams{NoEmptyMember: true, NoZPop: p.NoZPop}
	kp := KVParams{Deletes: true, NoLimitOnly: true, PSearch: true}
	for t := 0; t < pg.Tasks; t++ {
		n := r.Range(1, p.MaxSteps)
		for i := 0; i < n; i++ {
			db := r.Intn(pg.DBs)
			if r.Bool(0.55) {
				st := prog.Step{K: prog.STx, Task: t, DB: db}
				tt := &txTrack{status: map[string]int{}}
				for j := r.Range(1, 3); j > 0; j-- {
					d := ds[r.Intn(len(ds))]
					op, nature, bs := g.mixOp(d, true, mp, kp)
					if !tt.allow(false, nature, d, bs...) {
						continue
					}
					st.Ops = append(st.Ops, op)
				}
				if len(st.Ops) == 0 {
					st.Ops = append(st.Ops, prog.Op{K: "put", B: "b", Key: g.pick(g.Keys), Val: g.Val()})
				}
				if r.Bool(0.08) {
					st.End = "fnerr"
				} else if r.Bool(0.05) {
					// an entry that cannot fit into a segment: Commit fails
					// and must leave the database lock free
					st.Ops = append(st.Ops, prog.Op{K: "put", B: g.Bkts[0], Key: g.pick(g.Keys), Val: g.Val(), Big: int(pg.Cfg.SegSize)})
				}
				pg.Steps = append(pg.Steps, st)
			} else {
				st := prog.Step{K: prog.SView, Task: t, DB: db}
				first, _, _ := g.mixOp(ds[r.Intn(len(ds))], false, mp, kp)
				st.Ops = append(st.Ops, first)
				for j := r.Range(1, 4); j > 0; j-- {
					op, _, _ := g.mixOp(ds[r.Intn(len(ds))], false, mp, kp)
					st.Ops = append(st.Ops, op)
				}
				st.Ops = append(st.Ops, first) // the same read again: one unchanging state
				pg.Steps = append(pg.Steps, st)
			}
		}
	}
	if p.Merge {
		t := pg.Tasks
		pg.Tasks++
		for i := r.Range(1, 3); i > 0; i-- {
			pg.Steps = append(pg.Steps, prog.Step{K: prog.SMerge, Task: t, DB: r.Intn(pg.DBs)})
		}
	}
	if p.Backup && r.Bool(0.004) {
		// a blob with a long run of zeros among the data to be copied
		pg.Cfg.SegSize = 1 << 20
		pg.Steps = append(pg.Steps, prog.Step{K: prog.STx, Task: 0, DB: 0, Ops: []prog.Op{{K: "put", B: g.Bkts[0], Key: g.pick(g.Keys), Val: g.Val(), Big: r.Range(140000, 200000), Zero: true}, {K: "put", B: g.Bkts[0], Key: g.pick(g.Keys), Val: g.Val()}}})
	}
	if p.Backup {
		t := pg.Tasks
		pg.Tasks++
		pg.Steps = append(pg.Steps, prog.Step{K: prog.SBackup, Task: t, DB: 0, Dir: "/backup"})
	}
	if p.Close {
		t := pg.Tasks
		pg.Tasks++
		for i := r.Range(1, 2); i > 0; i-- {
			pg.Steps = append(pg.Steps, prog.Step{K: prog.SClose, Task: t, DB: r.Intn(pg.DBs)})
		}
	}
	// shuffle so that step ids do not encode the task order
	for i := len(pg.Steps) - 1; i > 0; i-- {
		j := r.Intn(i + 1)
		pg.Steps[i], pg.Steps[j] = pg.Steps[j], pg.Steps[i]
	}
	pg.Renumber()
	return pg
}
