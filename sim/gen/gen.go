// Package gen builds programs from seeded streams, swarm style: every run
// enables a random subset of operation kinds and draws its own sizes, so rare
// combinations are not drowned by the common ones.  Operations are generated
// independently of observed results, so a program is replayable as data.
package gen

import (
	"fmt"
	"math"

	"verifsim/core"
	"verifsim/prog"
)

var (
	KVKeys    = []string{"a", "ab", "abc", "b", "a|b", "|", "\x00", "ÿ", " ", "ba", "k1", "k2"}
	KVBuckets = []string{"b", "ba", "a", "ab"}
	TTLs      = []uint32{0, 0, 0, 1, 2, 60, math.MaxUint32}
)

// G carries the per-program generation state.
type G struct {
	R     *core.Rng
	nextV int
	Keys  []string
	Bkts  []string
	Unit  int  // typical record size (segment sizes are multiples of it)
	Long  bool // some values are 1-2.6 KB long (records far longer than any header or checksum block)
}

// Val returns a fresh unique value tag (so each read is attributable to one write).
func (g *G) Val() string {
	g.nextV++
	return fmt.Sprintf("v%d", g.nextV)
}

func (g *G) pick(xs []string) string { return xs[g.R.Intn(len(xs))] }

// subset draws a non-empty random subset of xs with at most max elements.
func subset(r *core.Rng, xs []string, min, max int) []string {
	n := r.Range(min, max)
	if n > len(xs) {
		n = len(xs)
	}
	idx := r.Intn(len(xs))
	out := []string{}
	seen := map[int]bool{}
	for len(out) < n {
		if !seen[idx] {
			seen[idx] = true
			out = append(out, xs[idx])
		}
		idx = r.Intn(len(xs))
	}
	return out
}

// Config draws a configuration.  modes lists the allowed index modes.
func Config(r *core.Rng, modes []int, segs []int64) prog.Config {
	c := prog.Config{
		IdxMode:  modes[r.Intn(len(modes))],
		RWMode:   r.Intn(2),
		LoadMode: r.Intn(2),
		Sync:     r.Bool(0.5),
		SegSize:  segs[r.Intn(len(segs))],
		RandSkip: r.Intn(4),
	}
	return c
}

// KVParams tunes the key/value program generator.
type KVParams struct {
	Modes       []int
	Segs        []int64
	MinTx       int
	MaxTx       int
	MaxOps      int
	Buckets     int // how many buckets (1..4)
	TTL         bool
	Timestamps  bool
	Deletes     bool
	Advance     bool
	Views       bool
	Reopen      float64 // probability of a reopen step after a transaction
	EmptyKey    bool
	NoLimitOnly bool // prefix scans only with offset 0 and no limit
	Paging      bool // prefix scans with offset/limit over 0..n+1
	PSearch     bool
	BadEnds     float64 // probability that a write transaction ends in rollback / fn error
	ManyKeys    float64 // probability that the run uses a large key set (B+ tree splits)
	Backward    bool    // the clock may also step backwards (TTL checks only)
	Boundary    bool    // scan offsets and limits also from negative and extreme values (C20)
	BigP        float64 // probability that a multi-op write transaction carries an oversized entry (its commit must fail)
	Restart     float64 // probability of a dirty restart step after a transaction
	Merge       float64 // probability of a Merge step after a transaction
	Mega        float64 // probability of a program with a few values of 1-2 MiB in 4 MiB segments (multi-chunk payloads)
}

// advanceStep draws a clock move.
func advanceStep(r *core.Rng) prog.Step {
	ds := []int64{0, 1e6, 1e6, 2e6, 1e9, 1e9, 2e9, 3e9, 61e9}
	return prog.Step{K: prog.SAdvance, D: ds[r.Intn(len(ds))]}
}

func (g *G) kvWrite(p KVParams) prog.Op {
	r := g.R
	b, k := g.pick(g.Bkts), g.pick(g.Keys)
	if p.EmptyKey && r.Bool(0.03) {
		k = ""
	}
	if p.Deletes && r.Bool(0.25) {
		return prog.Op{K: "del", B: b, Key: k}
	}
	v := g.Val()
	switch {
	case r.Bool(0.06):
		v = ""
	case r.Bool(0.05):
		v = v + "|x"
	}
	op := prog.Op{K: "put", B: b, Key: k, Val: v}
	if g.Long && r.Bool(0.3) {
		op.Big = r.Range(1025, 2600)
		op.Zero = r.Bool(0.3)
	}
	if p.TTL {
		op.TTL = TTLs[r.Intn(len(TTLs))]
	}
	if p.Timestamps && r.Bool(0.3) {
		op.K = "putts"
		tss := []int64{-61, -3, -2, -1, 0, 0, 1, 2, 60}
		op.TS = tss[r.Intn(len(tss))]
	}
	return op
}

func nearKey(g *G) string {
	k := g.pick(g.Keys)
	switch g.R.Intn(5) {
	case 0:
		return k + "\x00"
	case 1:
		if len(k) > 0 {
			return dropLastRune(k)
		}
	case 2:
		return k + "z"
	}
	return k
}

func (g *G) kvRead(p KVParams) prog.Op {
	r := g.R
	b := g.pick(g.Bkts)
	if r.Bool(0.05) {
		b = "never-written"
	}
	switch r.Intn(6) {
	case 0, 1:
		return prog.Op{K: "get", B: b, Key: nearKey(g)}
	case 2:
		return prog.Op{K: "getall", B: b}
	case 3:
		return prog.Op{K: "range", B: b, Key: nearKey(g), Key2: nearKey(g)}
	case 4:
		pre := g.pick(g.Keys)
		if r.Bool(0.5) && len(pre) > 1 {
			pre = firstRune(pre)
		}
		if r.Bool(0.15) {
			pre = ""
		}
		op := prog.Op{K: "prefix", B: b, Key: pre, I: 0, J: -1}
		if p.Boundary && r.Bool(0.5) {
			ext := []int{-1, -2, -9223372036854775808, 9223372036854775807, 0, 1, 2147483647, -2147483648}
			op.I = ext[r.Intn(len(ext))]
			op.J = ext[r.Intn(len(ext))]
			return op
		}
		if p.Paging && !p.NoLimitOnly {
			op.I = r.Intn(len(g.Keys) + 2)
			op.J = 1 + r.Intn(len(g.Keys)+1)
			if r.Bool(0.2) {
				op.J = -1
			}
		}
		return op
	default:
		if !p.PSearch {
			return prog.Op{K: "get", B: b, Key: g.pick(g.Keys)}
		}
		res := []string{".*", "^b", "c$", "^$", "[0-9]", "b", "(", "\\|"}
		pre := g.pick(g.Keys)
		if len(pre) > 1 {
			pre = firstRune(pre)
		}
		op := prog.Op{K: "psearch", B: b, Key: pre, Re: res[r.Intn(len(res))], I: 0, J: -1}
		if p.Boundary && r.Bool(0.5) {
			ext := []int{-1, -2, -9223372036854775808, 9223372036854775807, 0, 1}
			op.I = ext[r.Intn(len(ext))]
			op.J = ext[r.Intn(len(ext))]
			return op
		}
		if p.Paging && r.Bool(0.5) {
			op.J = 1 + r.Intn(len(g.Keys)+1)
		}
		return op
	}
}

// KV generates a key/value program.
func KV(r *core.Rng, p KVParams) *prog.Program {
	g := &G{R: r}
	pg := &prog.Program{Cfg: Config(r, p.Modes, p.Segs)}
	g.Keys = subset(r, KVKeys, 2, 8)
	if p.ManyKeys > 0 && r.Bool(p.ManyKeys) {
		// enough keys in one bucket to split B+ tree leaves and inner nodes
		// (order 8), inserted in random order
		n, pool := r.Range(9, 40), 60
		huge := r.Bool(0.25)
		if huge {
			// three levels: more than 36 distinct keys in ONE bucket (inner nodes split too)
			n, pool = r.Range(45, 120), 150
			if pg.Cfg.IdxMode == 2 {
				n = r.Range(45, 64) // sparse mode opens files for every lookup
			}
			p.Buckets = 1
		}
		g.Keys = subset(r, KVKeys, 1, 4)
		for i := 0; i < n; i++ {
			g.Keys = append(g.Keys, fmt.Sprintf("k%02d", r.Intn(pool)))
		}
	}
	if r.Bool(0.08) {
		g.Long = true
		pg.Cfg.SegSize = []int64{4096, 8192}[r.Intn(2)]
	}
	mega := p.Mega > 0 && r.Bool(p.Mega)
	if mega {
		// few transactions, a few of them with a value of 1-2 MiB
		pg.Cfg.SegSize = []int64{2 << 20, 2 << 20, 3 << 20, 4 << 20}[r.Intn(4)]
		g.Long = false
		g.Keys = subset(r, KVKeys, 2, 2)
		p.Buckets, p.Views = 1, false
		p.MinTx, p.MaxTx, p.MaxOps, p.BigP, p.Merge, p.Restart = 2, 3, 2, 0, 0, 0
	}
	nb := p.Buckets
	if nb <= 0 {
		nb = 1
	}
	g.Bkts = subset(r, KVBuckets, 1, nb)
	ntx := r.Range(p.MinTx, p.MaxTx)
	if len(g.Keys) > 12 {
		ntx += len(g.Keys) / 2
		if p.MaxOps < 6 {
			p.MaxOps = 6
		}
	}
	for i := 0; i < ntx; i++ {
		if p.Advance && r.Bool(0.35) {
			st := advanceStep(r)
			if p.Backward && r.Bool(0.2) {
				st.D = -st.D
			}
			pg.Steps = append(pg.Steps, st)
		}
		nops := 1
		if r.Bool(0.4) {
			nops = r.Range(1, p.MaxOps)
		}
		if !mega && r.Bool(0.03) {
			nops = r.Range(13, 40) // a big transaction (several writes per key)
		}
		st := prog.Step{K: prog.STx}
		for j := 0; j < nops; j++ {
			st.Ops = append(st.Ops, g.kvWrite(p))
		}
		if mega && r.Bool(0.5) {
			for j := range st.Ops {
				if st.Ops[j].K == "put" || st.Ops[j].K == "putts" {
					st.Ops[j].Big = (1 << 20) + r.Range(1, 900000)
					st.Ops[j].Zero = r.Bool(0.4)
					break
				}
			}
		}
		if p.BigP > 0 && r.Bool(p.BigP) {
			big := prog.Op{K: "put", B: g.pick(g.Bkts), Key: g.pick(g.Keys), Val: g.Val(), Big: int(pg.Cfg.SegSize)}
			pos := r.Intn(len(st.Ops) + 1)
			if len(st.Ops) > 0 && r.Bool(0.7) {
				pos = 1 + r.Intn(len(st.Ops)) // not first: earlier entries are already on disk when it fails
			}
			st.Ops = append(st.Ops[:pos:pos], append([]prog.Op{big}, st.Ops[pos:]...)...)
		}
		if p.BadEnds > 0 && r.Bool(p.BadEnds) {
			if r.Bool(0.5) {
				st.End = "rollback"
			} else {
				st.End = "fnerr"
			}
		} else if r.Bool(0.08) {
			st.End = "manual" // Begin / Commit / Rollback by hand instead of Update
		}
		pg.Steps = append(pg.Steps, st)
		if p.Views && r.Bool(0.4) {
			v := prog.Step{K: prog.SView}
			for j := r.Range(1, 4); j > 0; j-- {
				v.Ops = append(v.Ops, g.kvRead(p))
				if p.TTL && p.Advance && r.Bool(0.15) {
					// time passes while the read transaction is open
					v.Ops = append(v.Ops, prog.Op{K: "adv", TS: int64(r.Range(1, 3))})
				}
			}
			pg.Steps = append(pg.Steps, v)
		}
		if p.Reopen > 0 && r.Bool(p.Reopen) {
			pg.Steps = append(pg.Steps, prog.Step{K: prog.SReopen})
		}
		if p.Restart > 0 && r.Bool(p.Restart) {
			pg.Steps = append(pg.Steps, prog.Step{K: prog.SRestart})
		}
		if p.Merge > 0 && r.Bool(p.Merge) {
			pg.Steps = append(pg.Steps, prog.Step{K: prog.SMerge})
		}
	}
	pg.Renumber()
	return pg
}

// firstRune / dropLastRune cut on rune boundaries so that programs stay valid
// UTF-8 and survive a JSON round trip unchanged.
func firstRune(s string) string {
	for i := range s {
		if i > 0 {
			return s[:i]
		}
	}
	return s
}

func dropLastRune(s string) string {
	last := 0
	for i := range s {
		last = i
	}
	return s[:last]
}
