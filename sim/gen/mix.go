package gen

import (
	"math"

	"verifsim/core"
	"verifsim/prog"
)

// MixParams tunes the mixed (KV + list + set + sorted set) program generator.
type MixParams struct {
	Modes   []int
	Segs    []int64
	DS      []string // enabled structures: "kv", "list", "set", "zset"
	MinTx   int
	MaxTx   int
	MaxOps  int
	Views   bool
	Reopen  float64
	Restart float64
	Merge   float64
	Advance bool
	BadEnds float64
	BigP    float64

	// SelfRead lifts the in-transaction discipline: a transaction may read or
	// pop a structure it has already modified (C13 only).
	SelfRead bool
	// Boundary adds int64 extremes, NaN/Inf scores, nil-ish arguments (C20 only).
	Boundary bool

	// Avoidance predicates of recorded known findings (see known_findings.json).
	NoSMove        bool // SMove* are unlogged index mutations
	NoPipeInLRem   bool
	NoEmptyMember  bool // K-C06-empty-member: SRem/SPop of the empty set member remove nothing
	NoEmptyZKey    bool
	NoSPop         bool // SPop's choice follows Go's map order and may differ between two worlds (C19)
	NoZPop         bool // K4: positional sorted-set removals (ZPopMax/ZPopMin/ZRemRangeByRank) are excluded from programs with Merge
	KVTTL          bool
	ViewWrites     bool     // read-only transactions also call mutating APIs (must fail, no effect)
	AfterP         float64  // probability that calls are made on the handle of a finished transaction
	OneBucketPerTx bool     // C04: every transaction touches one bucket only
	Buckets        []string // override bucket names (C04)
}

var (
	listKeys  = []string{"l", "m"}
	listVals  = []string{"", "a", "b", "a|b", "|", "0|a"}
	setKeys   = []string{"s", "t"}
	setVals   = []string{"x", "y", "z", ""}
	zKeys     = []string{"p", "q", "r", "", "pp"}
	zScores   = []float64{0, 1, 1, 2, 2.5, -1, 16777216, 16777217, 0.1, 1700000001.5, -1e-7}
	idxSmall  = []int{-8, -7, -6, -5, -4, -3, -2, -1, 0, 1, 2, 3, 4, 5, 6, 7}
	idxHuge   = []int{math.MinInt64, math.MaxInt64, math.MinInt64 + 1, math.MaxInt32, math.MinInt32}
	dsBuckets = map[string][]string{"kv": {"b", "ba"}, "list": {"b", "lb"}, "set": {"b", "sb"}, "zset": {"b", "zb"}}
)

type txTrack struct {
	status map[string]int // ds+"/"+bucket -> 0 clean, 1 state-dependent write done, 2 blind writes done
}

func (t *txTrack) key(ds, b string) string { return ds + "/" + b }

// allow decides whether an op of the given nature may be added, and records it.
// nature: 0 read, 1 state-dependent write, 2 blind write.
func (t *txTrack) allow(selfRead bool, nature int, ds string, bs ...string) bool {
	if selfRead {
		return true
	}
	for _, b := range bs {
		st := t.status[t.key(ds, b)]
		if nature <= 1 && st != 0 {
			return false
		}
	}
	for _, b := range bs {
		if nature == 1 {
			t.status[t.key(ds, b)] = 1
		} else if nature == 2 {
			t.status[t.key(ds, b)] = 2
		}
	}
	return true
}

func (g *G) idx(p MixParams) int {
	if p.Boundary && g.R.Bool(0.15) {
		return idxHuge[g.R.Intn(len(idxHuge))]
	}
	return idxSmall[g.R.Intn(len(idxSmall))]
}

func (g *G) bucketOf(ds string, p MixParams) string {
	if len(p.Buckets) > 0 {
		return g.pick(p.Buckets)
	}
	bs := dsBuckets[ds]
	return bs[g.R.Intn(len(bs))]
}

func (g *G) listVal(p MixParams) string {
	if g.R.Bool(0.5) {
		return g.Val()
	}
	return listVals[g.R.Intn(len(listVals))]
}

// mixOp draws one op for structure ds; write=false draws a read.
func (g *G) mixOp(ds string, write bool, p MixParams, kp KVParams) (op prog.Op, nature int, buckets []string) {
	r := g.R
	b := g.bucketOf(ds, p)
	buckets = []string{b}
	switch ds {
	case "kv":
		if write {
			op = g.kvWrite(kp)
			if len(p.Buckets) > 0 {
				op.B = b
			}
			return op, 2, []string{op.B}
		}
		op = g.kvRead(kp)
		if len(p.Buckets) > 0 && op.B != "never-written" {
			op.B = b
		}
		return op, 0, []string{op.B}
	case "list":
		k := listKeys[r.Intn(len(listKeys))]
		if r.Bool(0.03) {
			k = "a|b"
		}
		if r.Bool(0.02) {
			k = ""
		}
		if !write {
			switch r.Intn(4) {
			case 0:
				return prog.Op{K: "lrange", B: b, Key: k, I: g.idx(p), J: g.idx(p)}, 0, buckets
			case 1:
				return prog.Op{K: "lsize", B: b, Key: k}, 0, buckets
			case 2:
				return prog.Op{K: "lpeek", B: b, Key: k}, 0, buckets
			}
			return prog.Op{K: "rpeek", B: b, Key: k}, 0, buckets
		}
		switch r.Intn(10) {
		case 0, 1, 2:
			n := 1 + r.Intn(3)
			vs := make([]string, n)
			for i := range vs {
				vs[i] = g.listVal(p)
			}
			kind := "rpush"
			if r.Bool(0.4) {
				kind = "lpush"
			}
			return prog.Op{K: kind, B: b, Key: k, Vals: vs}, 2, buckets
		case 3:
			return prog.Op{K: "lpop", B: b, Key: k}, 1, buckets
		case 4:
			return prog.Op{K: "rpop", B: b, Key: k}, 1, buckets
		case 5, 6:
			v := listVals[r.Intn(len(listVals))]
			if p.NoPipeInLRem {
				for containsPipe(v) {
					v = listVals[r.Intn(len(listVals))]
				}
			}
			c := g.idx(p)
			if !p.Boundary {
				c = r.Range(-3, 3)
			}
			return prog.Op{K: "lrem", B: b, Key: k, I: c, Val: v}, 1, buckets
		case 7:
			return prog.Op{K: "lset", B: b, Key: k, I: g.idx(p), Val: g.listVal(p)}, 1, buckets
		case 8:
			return prog.Op{K: "ltrim", B: b, Key: k, I: g.idx(p), J: g.idx(p)}, 1, buckets
		}
		return prog.Op{K: "rpush", B: b, Key: k, Vals: []string{g.listVal(p)}}, 2, buckets
	case "set":
		k := setKeys[r.Intn(len(setKeys))]
		k2 := setKeys[r.Intn(len(setKeys))]
		b2 := g.bucketOf(ds, p)
		member := func() string {
			v := setVals[r.Intn(len(setVals))]
			if p.NoEmptyMember && v == "" {
				v = "x"
			}
			if r.Bool(0.3) {
				v = g.Val()
			}
			return v
		}
		if !write {
			switch r.Intn(9) {
			case 0:
				return prog.Op{K: "smembers", B: b, Key: k}, 0, buckets
			case 1:
				return prog.Op{K: "scard", B: b, Key: k}, 0, buckets
			case 2:
				return prog.Op{K: "shaskey", B: b, Key: k}, 0, buckets
			case 3:
				return prog.Op{K: "sismember", B: b, Key: k, Val: member()}, 0, buckets
			case 4:
				return prog.Op{K: "saremembers", B: b, Key: k, Vals: []string{member(), member()}}, 0, buckets
			case 5:
				return prog.Op{K: "sdiff1", B: b, Key: k, Key2: k2}, 0, buckets
			case 6:
				return prog.Op{K: "sunion1", B: b, Key: k, Key2: k2}, 0, buckets
			case 7:
				return prog.Op{K: "sdiff2", B: b, Key: k, B2: b2, Key2: k2}, 0, []string{b, b2}
			}
			return prog.Op{K: "sunion2", B: b, Key: k, B2: b2, Key2: k2}, 0, []string{b, b2}
		}
		switch r.Intn(10) {
		case 0, 1, 2, 3:
			n := 1 + r.Intn(3)
			vs := make([]string, n)
			for i := range vs {
				vs[i] = member()
			}
			return prog.Op{K: "sadd", B: b, Key: k, Vals: vs}, 2, buckets
		case 4, 5:
			return prog.Op{K: "srem", B: b, Key: k, Vals: []string{member()}}, 2, buckets
		case 6:
			if p.NoSPop {
				return prog.Op{K: "srem", B: b, Key: k, Vals: []string{member()}}, 2, buckets
			}
			return prog.Op{K: "spop", B: b, Key: k}, 1, buckets
		case 7:
			if p.NoSMove {
				return prog.Op{K: "srem", B: b, Key: k, Vals: []string{member()}}, 2, buckets
			}
			return prog.Op{K: "smove1", B: b, Key: k, Key2: k2, Val: member()}, 1, buckets
		case 8:
			if p.NoSMove {
				return prog.Op{K: "sadd", B: b, Key: k, Vals: []string{member()}}, 2, buckets
			}
			return prog.Op{K: "smove2", B: b, Key: k, B2: b2, Key2: k2, Val: member()}, 1, []string{b, b2}
		}
		return prog.Op{K: "sadd", B: b, Key: k, Vals: []string{member()}}, 2, buckets
	case "zset":
		k := zKeys[r.Intn(len(zKeys))]
		if p.NoEmptyZKey && k == "" {
			k = "p"
		}
		if r.Bool(0.02) {
			k = "p|q"
		}
		sc := zScores[r.Intn(len(zScores))]
		if !write {
			lo, hi := zScores[r.Intn(len(zScores))]-0.5*float64(r.Intn(3)), zScores[r.Intn(len(zScores))]+0.5*float64(r.Intn(3))
			opt := prog.Op{F: lo, F2: hi, Lim: r.Intn(4), ExS: r.Bool(0.3), ExE: r.Bool(0.3), NoOp: r.Bool(0.2)}
			switch r.Intn(12) {
			case 0:
				opt.K, opt.B = "zrangebyscore", b
				return opt, 0, buckets
			case 1:
				opt.K, opt.B = "zcount", b
				return opt, 0, buckets
			case 2:
				return prog.Op{K: "zrangebyrank", B: b, I: g.idx(p), J: g.idx(p)}, 0, buckets
			case 3:
				return prog.Op{K: "zrank", B: b, Key: k}, 0, buckets
			case 4:
				return prog.Op{K: "zrevrank", B: b, Key: k}, 0, buckets
			case 5:
				return prog.Op{K: "zscore", B: b, Key: k}, 0, buckets
			case 6:
				return prog.Op{K: "zgetbykey", B: b, Key: k}, 0, buckets
			case 7:
				return prog.Op{K: "zcard", B: b}, 0, buckets
			case 8:
				return prog.Op{K: "zmembers", B: b}, 0, buckets
			case 9:
				return prog.Op{K: "zpeekmin", B: b}, 0, buckets
			case 10:
				return prog.Op{K: "zpeekmax", B: b}, 0, buckets
			}
			opt.K, opt.B = "zrangebyscore", b
			opt.F, opt.F2 = hi, lo
			return opt, 0, buckets
		}
		switch r.Intn(10) {
		case 0, 1, 2, 3, 4:
			op := prog.Op{K: "zadd", B: b, Key: k, F: sc, Val: g.Val()}
			if p.Boundary && r.Bool(0.1) {
				op.SF = 1 + r.Intn(3)
			}
			return op, 2, buckets
		case 5, 6:
			return prog.Op{K: "zrem", B: b, Key: k}, 1, buckets
		case 7:
			if p.NoZPop {
				return prog.Op{K: "zrem", B: b, Key: k}, 1, buckets
			}
			return prog.Op{K: "zremrank", B: b, I: g.idx(p), J: g.idx(p)}, 1, buckets
		case 8:
			if p.NoZPop {
				return prog.Op{K: "zadd", B: b, Key: k, F: sc, Val: g.Val()}, 2, buckets
			}
			return prog.Op{K: "zpopmax", B: b}, 1, buckets
		}
		if p.NoZPop {
			return prog.Op{K: "zrem", B: b, Key: k}, 1, buckets
		}
		return prog.Op{K: "zpopmin", B: b}, 1, buckets
	}
	return prog.Op{K: "get", B: "b", Key: "a"}, 0, buckets
}

func containsPipe(s string) bool {
	for i := 0; i < len(s); i++ {
		if s[i] == '|' {
			return true
		}
	}
	return false
}

// Mix generates a mixed program.
func Mix(r *core.Rng, p MixParams) *prog.Program {
	g := &G{R: r}
	pg := &prog.Program{Cfg: Config(r, p.Modes, p.Segs)}
	g.Keys = subset(r, KVKeys, 2, 6)
	if r.Bool(0.3) {
		// the same name as a KV key and as a list / set / sorted-set key of the
		// same bucket: the structures are separate name spaces
		g.Keys = append(g.Keys, subset(r, []string{"l", "m", "s", "t", "p", "q"}, 1, 4)...)
	}
	if r.Bool(0.06) {
		g.Long = true
		pg.Cfg.SegSize = []int64{4096, 8192}[r.Intn(2)]
	}
	g.Bkts = dsBuckets["kv"]
	if len(p.Buckets) > 0 {
		g.Bkts = p.Buckets
	}
	kp := KVParams{TTL: p.KVTTL, Deletes: true, NoLimitOnly: true, PSearch: true, Boundary: p.Boundary}
	ds := subset(r, p.DS, 1, len(p.DS))
	ntx := r.Range(p.MinTx, p.MaxTx)
	for i := 0; i < ntx; i++ {
		if p.Advance && r.Bool(0.25) {
			pg.Steps = append(pg.Steps, advanceStep(r))
		}
		st := prog.Step{K: prog.STx}
		tt := &txTrack{status: map[string]int{}}
		nops := 1
		if r.Bool(0.5) {
			nops = r.Range(1, p.MaxOps)
		}
		oneBucket, haveBucket := "", false
		for j := 0; j < nops; j++ {
			d := ds[r.Intn(len(ds))]
			write := true
			if p.SelfRead && r.Bool(0.35) {
				write = false
			}
			op, nature, bs := g.mixOp(d, write, p, kp)
			if p.OneBucketPerTx {
				if !haveBucket {
					oneBucket, haveBucket = op.B, true
				}
				if op.B != oneBucket || (op.B2 != "" && op.B2 != oneBucket) {
					continue
				}
			}
			if !tt.allow(p.SelfRead, nature, d, bs...) {
				continue
			}
			st.Ops = append(st.Ops, op)
		}
		if len(st.Ops) == 0 {
			op, _, _ := g.mixOp(ds[0], true, p, kp)
			if prog.Blind(op.K) {
				st.Ops = append(st.Ops, op)
			} else {
				st.Ops = append(st.Ops, prog.Op{K: "put", B: g.Bkts[0], Key: g.pick(g.Keys), Val: g.Val()})
			}
		}
		if p.BigP > 0 && r.Bool(p.BigP) {
			big := prog.Op{K: "put", B: g.Bkts[0], Key: g.pick(g.Keys), Val: g.Val(), Big: int(pg.Cfg.SegSize)}
			pos := r.Intn(len(st.Ops) + 1)
			st.Ops = append(st.Ops[:pos:pos], append([]prog.Op{big}, st.Ops[pos:]...)...)
		}
		if p.BadEnds > 0 && r.Bool(p.BadEnds) {
			if r.Bool(0.5) {
				st.End = "rollback"
			} else {
				st.End = "fnerr"
			}
		} else if r.Bool(0.08) {
			st.End = "manual" // Begin / Commit / Rollback by hand instead of Update
		}
		if p.AfterP > 0 && r.Bool(p.AfterP) {
			for j := r.Range(1, 3); j > 0; j-- {
				op, _, _ := g.mixOp(ds[r.Intn(len(ds))], r.Bool(0.7), p, kp)
				st.After = append(st.After, op)
			}
		}
		pg.Steps = append(pg.Steps, st)
		if p.Views && r.Bool(0.5) {
			v := prog.Step{K: prog.SView}
			for j := r.Range(1, 5); j > 0; j-- {
				op, _, _ := g.mixOp(ds[r.Intn(len(ds))], p.ViewWrites && r.Bool(0.4), p, kp)
				v.Ops = append(v.Ops, op)
			}
			if p.AfterP > 0 && r.Bool(p.AfterP) {
				for j := r.Range(1, 3); j > 0; j-- {
					op, _, _ := g.mixOp(ds[r.Intn(len(ds))], r.Bool(0.5), p, kp)
					v.After = append(v.After, op)
				}
			}
			pg.Steps = append(pg.Steps, v)
		}
		if p.Reopen > 0 && r.Bool(p.Reopen) {
			pg.Steps = append(pg.Steps, prog.Step{K: prog.SReopen})
		}
		if p.Restart > 0 && r.Bool(p.Restart) {
			pg.Steps = append(pg.Steps, prog.Step{K: prog.SRestart})
		}
		if p.Merge > 0 && r.Bool(p.Merge) {
			pg.Steps = append(pg.Steps, prog.Step{K: prog.SMerge})
		}
	}
	pg.Renumber()
	return pg
}
