package core

import (
	"fmt"
	"os"
	"sort"
)

var debugFaults = os.Getenv("NUTSIM_DEBUG_FAULTS") != ""

// Fault is one planned fault, addressed by step and by the ordinal of the I/O
// point of a class inside that step, so that it survives program shrinking.
type Fault struct {
	StepID int    `json:"step"`
	Class  string `json:"class"` // write sync msync open trunc remove read mkdir mmap-store | "fmp" (any mutating point)
	Nth    int    `json:"nth"`   // 0-based ordinal of that class within the step
	Kind   string `json:"kind"`  // eio short enospc emfile eacces syncfail-durable syncfail-lost | crash torn powerloss
	Arg    int    `json:"arg"`   // short/torn: prefix length; powerloss: variant seed
}

//go:norace
func (f Fault) String() string {
	return fmt.Sprintf("step=%d %s#%d %s(%d)", f.StepID, f.Class, f.Nth, f.Kind, f.Arg)
}

// Snapshot is a crash / torn-write / power-loss image taken at an FMP while the
// run continues.
type Snapshot struct {
	Image    *Node
	Kind     string // crash torn powerloss
	StepID   int
	FMP      int // step-local ordinal of the FMP (0-based) the image was taken *before* (torn: during)
	Class    string
	Path     string
	Arg      int
	Acked    int
	InFlight int
	Phase    string
	ClockNS  int64
	Digest   uint64
}

// AsFault is the explicit fault that reproduces this snapshot.
//
//go:norace
func (s *Snapshot) AsFault() Fault {
	if s.Class == "now" && s.StepID >= 0 {
		// an image of the quiescent state after a step
		return Fault{StepID: s.StepID, Class: "now", Nth: 0, Kind: s.Kind, Arg: s.Arg}
	}
	return Fault{StepID: s.StepID, Class: "fmp", Nth: s.FMP, Kind: s.Kind, Arg: s.Arg}
}

// SnapPolicy takes images at a seeded sample of the FMPs.
type SnapPolicy struct {
	Crash      bool
	Torn       bool
	PowerLoss  bool
	P          float64 // probability per FMP (>=1: every FMP)
	TornMax    int     // torn variants per write (0 = none; <0 = every prefix)
	PLVariants int     // power-loss variants per FMP
	MaxSnaps   int
	Rng        *Rng
	Steps      map[int]bool // nil = all steps
	Phases     map[string]bool
}

type FaultPlan struct {
	Faults []Fault
	Policy *SnapPolicy
	Snaps  []*Snapshot
	Fired  []Fault

	classN map[string]int
	seen   map[uint64]bool

	mmapOverride *Inode
	mmapPre      []byte
}

//go:norace
func (p *FaultPlan) beginStep() { p.classN = map[string]int{} }

// tornCuts proposes prefix lengths for a write of n bytes.
//
//go:norace
func tornCuts(n int, max int, r *Rng) []int {
	if n <= 1 || max == 0 {
		return nil
	}
	set := map[int]bool{}
	add := func(c int) {
		if c > 0 && c < n {
			set[c] = true
		}
	}
	if max < 0 {
		for c := 1; c < n; c++ {
			add(c)
		}
	} else {
		// record-field boundaries of nutsdb data records and index records,
		// plus sector boundaries and generic points
		for _, c := range []int{1, 4, 8, 12, 16, 20, 22, 24, 26, 28, 30, 32, 34, 41, 42, 43, n / 2, n - 2, n - 1} {
			add(c)
		}
		for c := 512; c < n; c += 512 {
			add(c)
		}
		if r != nil {
			for i := 0; i < 3; i++ {
				add(1 + r.Intn(n-1))
			}
		}
	}
	cuts := make([]int, 0, len(set))
	for c := range set {
		cuts = append(cuts, c)
	}
	sort.Ints(cuts)
	if max > 0 && len(cuts) > max && r != nil {
		// seeded subset, order kept
		for len(cuts) > max {
			i := r.Intn(len(cuts))
			cuts = append(cuts[:i], cuts[i+1:]...)
		}
	}
	return cuts
}

//go:norace
func (p *FaultPlan) at(w *World, class, path string, off int64, data []byte, mutating bool, ino *Inode) Action {
	if p == nil || (len(p.Faults) == 0 && p.Policy == nil) {
		return Action{}
	}
	if p.classN == nil {
		p.classN = map[string]int{}
	}
	nth := p.classN[class]
	p.classN[class] = nth + 1
	fmp := -1
	if mutating {
		fmp = p.classN["fmp"]
		p.classN["fmp"] = fmp + 1
	}
	if debugFaults {
		fmt.Fprintf(os.Stderr, "at class=%s path=%s mut=%v fmp=%d nth=%d step=%d policy=%v\n", class, path, mutating, fmp, nth, w.StepID, p.Policy != nil)
	}
	var act Action
	for _, f := range p.Faults {
		if f.StepID != w.StepID {
			continue
		}
		if !((f.Class == class && f.Nth == nth) || (f.Class == "fmp" && mutating && f.Nth == fmp)) {
			continue
		}
		switch f.Kind {
		case "crash", "torn", "powerloss":
			if mutating {
				p.snap(w, f.Kind, f.Arg, class, path, off, data, ino, fmp)
				p.Fired = append(p.Fired, f)
				w.Stats.Faults[f.Kind]++
			}
		default:
			act = Action{Kind: f.Kind, N: f.Arg}
			p.Fired = append(p.Fired, f)
			w.Stats.Faults[f.Kind]++
			w.Log.Add("fault %s", f.String())
		}
	}
	if pol := p.Policy; pol != nil && mutating && class != "mkdir" {
		if (pol.Steps == nil || pol.Steps[w.StepID]) && (pol.Phases == nil || pol.Phases[w.Phase]) &&
			(pol.MaxSnaps == 0 || len(p.Snaps) < pol.MaxSnaps) && (pol.P >= 1 || pol.Rng.Bool(pol.P)) {
			if pol.Crash {
				p.snap(w, "crash", 0, class, path, off, data, ino, fmp)
				w.Stats.Faults["crash"]++
			}
			if pol.Torn && data != nil && (class == "write" || class == "mmap-store") {
				for _, c := range tornCuts(len(data), pol.TornMax, pol.Rng) {
					p.snap(w, "torn", c, class, path, off, data, ino, fmp)
					w.Stats.Faults["torn"]++
				}
			}
			if pol.PowerLoss {
				for v := 0; v < pol.PLVariants; v++ {
					arg := v
					if v >= 2 {
						arg = 2 + pol.Rng.Intn(1<<20)
					}
					p.snap(w, "powerloss", arg, class, path, off, data, ino, fmp)
					w.Stats.Faults["powerloss"]++
				}
			}
		}
	}
	return act
}

// snap takes one image.  The image reflects the state *before* the operation
// at this FMP, except for "torn", which additionally holds a prefix of it.
//
//go:norace
func (p *FaultPlan) snap(w *World, kind string, arg int, class, path string, off int64, data []byte, ino *Inode, fmp int) {
	over := map[*Inode][]byte{}
	if p.mmapOverride != nil {
		over[p.mmapOverride] = p.mmapPre
	}
	var img *Node
	switch kind {
	case "crash":
		img = cloneCrash(w.Disk.Root, over)
	case "torn":
		if ino == nil || data == nil || arg <= 0 || arg >= len(data) {
			return
		}
		base := ino.Data
		if o, ok := over[ino]; ok {
			base = o
		}
		nd := append([]byte(nil), base...)
		end := off + int64(arg)
		if end > int64(len(nd)) {
			x := make([]byte, end)
			copy(x, nd)
			nd = x
		}
		copy(nd[off:end], data[:arg])
		over[ino] = nd
		if arg < 42 {
			w.Stats.Probes["torn-inside-record-header"]++
		} else {
			w.Stats.Probes["torn-inside-record-payload"]++
		}
		img = cloneCrash(w.Disk.Root, over)
	case "powerloss":
		// arg: 0 = lose everything unsynced, 1 = keep everything, >=2 seeded
		mode := arg
		if mode > 2 {
			mode = 2
		}
		r := NewRng(Mix(w.Seed, uint64(w.FMPTotal), uint64(arg)))
		var torn *PendOp
		if data != nil && ino != nil && (class == "write" || class == "mmap-store") && mode == 2 {
			cut := len(data)
			if len(data) > 1 && r.Bool(0.6) {
				cut = 1 + r.Intn(len(data)-1)
			}
			if r.Bool(0.7) {
				torn = &PendOp{Off: off, Data: append([]byte(nil), data[:cut]...)}
			}
		}
		img = clonePowerLoss(w.Disk.Root, over, torn, ino, r, mode)
	default:
		return
	}
	dg := HashBytes([]byte(TreeDigest(img)))
	acked, inflight := w.Acked, w.InFlight
	if w.SnapInfo != nil {
		acked, inflight = w.SnapInfo()
	}
	key := Mix(dg, uint64(acked), uint64(inflight+1))
	if w.SnapInfo != nil {
		// the event number differs at every point: only the acknowledged
		// prefix distinguishes two equal images
		key = Mix(dg, uint64(acked), 0)
	}
	if p.seen == nil {
		p.seen = map[uint64]bool{}
	}
	w.Stats.Probes["images-taken"]++
	if p.seen[key] {
		return
	}
	p.seen[key] = true
	p.Snaps = append(p.Snaps, &Snapshot{
		Image: img, Kind: kind, StepID: w.StepID, FMP: fmp, Class: class, Path: path, Arg: arg,
		Acked: acked, InFlight: inflight, Phase: w.Phase, ClockNS: w.Clock.NowNS(), Digest: dg,
	})
}

// SnapNow takes a crash image of the present state (e.g. at the end of a run).
//
//go:norace
func (w *World) SnapNow(kind string, arg int) {
	w.Disk.flushMmapStores("snapnow")
	w.Faults.snap(w, kind, arg, "now", "", 0, nil, nil, -1)
}
