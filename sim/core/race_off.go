//go:build !race

package core

const RaceBuild = false

func raceDisable() {}
func raceEnable()  {}
