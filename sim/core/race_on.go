//go:build race

package core

import "runtime"

const RaceBuild = true

func raceDisable() { runtime.RaceDisable() }
func raceEnable()  { runtime.RaceEnable() }
