package core

import "time"

// Clock is the only clock the system under test can read.  It moves only when
// the simulator moves it: by Advance/Set (driven by the program or the fault
// plan), by Sleep, and by Tick nanoseconds per reading (0 = frozen).
type Clock struct {
	w     *World
	ns    int64 // nanoseconds since the Unix epoch
	Tick  int64 // ns added per Now() reading
	reads int   // readings since the clock last moved (livelock guard)
}

//go:norace
func newClock(w *World, r *Rng) *Clock {
	// a seed-chosen instant in 2023..2033 (above the snowflake epoch, 2010)
	base := int64(1672531200) + int64(r.Intn(10*365*24*3600))
	return &Clock{w: w, ns: base*1e9 + int64(r.Intn(1e9)), Tick: 0}
}

// NowNS returns the current simulated time without advancing it.
//
//go:norace
func (c *Clock) NowNS() int64 { return c.ns }

// Unix returns the current simulated second without advancing the clock.
//
//go:norace
func (c *Clock) Unix() int64 { return c.ns / 1e9 }

// Read is what time.Now() in the system under test resolves to.
//
//go:norace
func (c *Clock) Read() time.Time {
	Yield("clock")
	t := time.Unix(0, c.ns)
	if c.Tick > 0 {
		c.ns += c.Tick
		c.w.Stats.SimAdvance += c.Tick
	} else {
		c.reads++
		if c.reads > 100000 {
			// a busy-wait on a frozen clock (snowflake does this when its
			// per-millisecond sequence wraps): let time pass.
			c.Advance(time.Millisecond)
			Probe("clock-busywait-release")
		}
	}
	return t
}

// Advance moves the clock forward (or backward for negative d).
//
//go:norace
func (c *Clock) Advance(d time.Duration) {
	c.ns += int64(d)
	c.reads = 0
	if d > 0 {
		c.w.Stats.SimAdvance += int64(d)
	}
	c.w.Log.Add("clock %+d", int64(d))
}

// SetUnix jumps to an absolute second (keeping the sub-second part).
//
//go:norace
func (c *Clock) SetNS(ns int64) {
	c.Advance(time.Duration(ns - c.ns))
}
