package core

import (
	"fmt"
	"runtime"
	"sort"
	"strings"
)

// Sched is a cooperative scheduler: caller goroutines ("tasks") are real
// goroutines, but exactly one holds the run token.  A task hands the token
// back at every yield point (lock operation, disk call, clock reading) and the
// scheduler draws the next task from its seeded stream among the runnable
// ones.  It models every lock from the Lock/Unlock calls it mediates and never
// resumes a task whose pending acquire cannot succeed, so no task ever blocks
// inside a real mutex.
//
// In race-detector builds all hand-off happens between raceDisable()
// and raceEnable(), so the scheduler adds no happens-before edges:
// only the system's own synchronisation orders accesses for the detector.
type Sched struct {
	w        *World
	rng      *Rng
	tasks    []*Task
	cur      *Task
	back     chan struct{}
	locks    map[interface{}]*lockState
	lockIDs  map[interface{}]int
	Trace    []int // task chosen at each decision
	Replay   []int // if non-nil, choices to follow (falls back to lowest runnable id)
	rpos     int
	Steps    int
	MaxSteps int
	SwitchP  float64 // probability of considering a switch at a yield point
	Seq      int64   // global event sequence number (stamps invoke/return)
	Deadlock string
	Capped   bool
	Grants   []string // lock grant order, for the witness serialisation
	active   bool
}

type heldLock struct {
	key   interface{}
	write bool
}

type lockState struct {
	id      int
	writer  *Task
	readers map[*Task]int
}

// Task is one caller goroutine.
type Task struct {
	ID     int
	Name   string
	fn     func()
	wake   chan struct{}
	done   bool
	wantK  interface{} // lock it is about to acquire (nil = none)
	wantW  bool
	wantRW bool        // the lock is an RWMutex (the database lock), not a plain mutex
	relK   interface{} // lock it has just released (processed by the scheduler goroutine)
	relW   bool
	held   []heldLock
	// LastRWGrant is the global sequence number of this task's latest RWMutex
	// grant: the serialisation point of the transaction it is running.
	LastRWGrant int64
	Panic       interface{}
	Stack       string
}

// NewSched attaches a scheduler to w.
func (w *World) NewSched(r *Rng) *Sched {
	s := &Sched{w: w, rng: r, back: make(chan struct{}), locks: map[interface{}]*lockState{}, lockIDs: map[interface{}]int{}, MaxSteps: 200000, SwitchP: 1}
	w.Sched = s
	return s
}

// Go registers a task.
func (s *Sched) Go(name string, fn func()) *Task {
	t := &Task{ID: len(s.tasks), Name: name, fn: fn, wake: make(chan struct{})}
	s.tasks = append(s.tasks, t)
	return t
}

// NextSeq returns the next global event sequence number.
//
//go:norace
func (s *Sched) NextSeq() int64 { s.Seq++; return s.Seq }

// CurSeq returns the latest sequence number handed out.
//
//go:norace
func (s *Sched) CurSeq() int64 { return s.Seq }

//go:norace
func (s *Sched) runnable(t *Task) bool {
	if t.done {
		return false
	}
	if t.wantK == nil {
		return true
	}
	ls := s.locks[t.wantK]
	if ls == nil {
		return true
	}
	if t.wantW {
		return ls.writer == nil && len(ls.readers) == 0
	}
	return ls.writer == nil
}

// Run executes all registered tasks to completion (or deadlock / step cap)
// under the seeded schedule.  It must be called from the driver goroutine.
func (s *Sched) Run() {
	s.active = true
	for _, t := range s.tasks {
		t := t
		go func() {
			raceDisable()
			<-t.wake
			raceEnable()
			func() {
				defer func() {
					if r := recover(); r != nil {
						t.Panic = r
						buf := make([]byte, 16384)
						t.Stack = string(buf[:runtime.Stack(buf, false)])
					}
				}()
				t.fn()
			}()
			raceDisable()
			t.done = true
			s.back <- struct{}{}
			raceEnable()
		}()
	}
	for {
		var run []*Task
		live := 0
		for _, t := range s.tasks {
			if t.relK != nil {
				s.release(t)
			}
		}
		for _, t := range s.tasks {
			if !t.done {
				live++
				if s.runnable(t) {
					run = append(run, t)
				}
			}
		}
		if live == 0 {
			break
		}
		if len(run) == 0 {
			s.Deadlock = s.describeWait()
			break
		}
		if s.Steps >= s.MaxSteps {
			s.Capped = true
			break
		}
		s.Steps++
		next := s.pick(run)
		if s.cur != next {
			s.w.Stats.Switches++
		}
		s.cur = next
		s.Trace = append(s.Trace, next.ID)
		if next.wantK != nil {
			s.grant(next)
		}
		raceDisable()
		next.wake <- struct{}{}
		<-s.back
		raceEnable()
	}
	if s.Deadlock == "" && !s.Capped {
		// every task returned: a lock that is still held now is held for ever
		// (the next transaction, or Close, would block)
		leak := -1
		for _, ls := range s.locks {
			if (ls.writer != nil || len(ls.readers) > 0) && (leak < 0 || ls.id < leak) {
				leak = ls.id
			}
		}
		if leak >= 0 {
			for _, ls := range s.locks {
				if ls.id == leak {
					who := "readers"
					if ls.writer != nil {
						who = "writer " + ls.writer.Name
					}
					s.Deadlock = fmt.Sprintf("lock leak: lock #%d is still held (%s) although every task has returned; the next Lock on it blocks for ever", ls.id, who)
				}
			}
		}
	}
	s.cur = nil
	s.active = false
}

//go:norace
func (s *Sched) pick(run []*Task) *Task {
	if s.Replay != nil {
		if s.rpos < len(s.Replay) {
			id := s.Replay[s.rpos]
			s.rpos++
			for _, t := range run {
				if t.ID == id {
					return t
				}
			}
		}
		return run[0]
	}
	// prefer to keep running the current task with probability 1-SwitchP
	if s.cur != nil && s.SwitchP < 1 {
		for _, t := range run {
			if t == s.cur && !s.rng.Bool(s.SwitchP) {
				return t
			}
		}
	}
	return run[s.rng.Intn(len(run))]
}

//go:norace
func (s *Sched) grant(t *Task) {
	ls := s.locks[t.wantK]
	if ls == nil {
		id, ok := s.lockIDs[t.wantK]
		if !ok {
			id = len(s.lockIDs)
			s.lockIDs[t.wantK] = id
		}
		ls = &lockState{id: id, readers: map[*Task]int{}}
		s.locks[t.wantK] = ls
	}
	mode := "R"
	if t.wantW {
		ls.writer = t
		mode = "W"
	} else {
		ls.readers[t]++
	}
	s.Grants = append(s.Grants, fmt.Sprintf("%d:%s:%d", t.ID, mode, ls.id))
	s.w.Log.Add("grant task=%d %s lock=%d", t.ID, mode, ls.id)
	if t.wantRW {
		s.Seq++
		t.LastRWGrant = s.Seq
	}
	t.held = append(t.held, heldLock{t.wantK, t.wantW})
	t.wantK = nil
}

//go:norace
func (s *Sched) describeWait() string {
	var parts []string
	for _, t := range s.tasks {
		if t.done {
			continue
		}
		if t.wantK != nil {
			ls := s.locks[t.wantK]
			holders := []string{}
			if ls != nil {
				if ls.writer != nil {
					holders = append(holders, fmt.Sprintf("W:%s", ls.writer.Name))
				}
				for r := range ls.readers {
					holders = append(holders, fmt.Sprintf("R:%s", r.Name))
				}
			}
			sort.Strings(holders)
			m := "R"
			if t.wantW {
				m = "W"
			}
			parts = append(parts, fmt.Sprintf("%s waits %s on lock held by [%s]", t.Name, m, strings.Join(holders, ",")))
		}
	}
	return strings.Join(parts, "; ")
}

// yield hands the token back to the scheduler and waits to be resumed.
//
//go:norace
func (s *Sched) yield(t *Task) {
	s.w.Stats.Yields++
	raceDisable()
	s.back <- struct{}{}
	<-t.wake
	raceEnable()
}

// Yield is a scheduling point.  Outside scheduled runs it is a no-op.
//
//go:norace
func Yield(kind string) {
	w := W
	if w == nil || w.Sched == nil || !w.Sched.active || w.Sched.cur == nil {
		return
	}
	s := w.Sched
	s.yield(s.cur)
}

// ErrSelfDeadlock is the panic value raised in sequential runs when the single
// caller would block forever on a lock.
type ErrSelfDeadlock struct{ What string }

func (e ErrSelfDeadlock) Error() string { return "self-deadlock: " + e.What }

// seqLocks models locks in sequential (unscheduled) runs so that a caller that
// would block on a lock it can never get is detected instead of hanging.
type seqLock struct {
	w bool
	r int
}

var seqLocks = map[interface{}]*seqLock{}

// ResetSeqLocks forgets sequential lock state (between runs).
func ResetSeqLocks() { seqLocks = map[interface{}]*seqLock{} }

// LockAcquire is called by the sync shim before taking the real lock.
//
//go:norace
func LockAcquire(key interface{}, write bool, rw bool) {
	w := W
	if w != nil && w.Sched != nil && w.Sched.active && w.Sched.cur != nil {
		s := w.Sched
		t := s.cur
		t.wantK = key
		t.wantW = write
		t.wantRW = rw
		s.yield(t) // resumed only once granted (grant() clears wantK)
		return
	}
	l := seqLocks[key]
	if l == nil {
		l = &seqLock{}
		seqLocks[key] = l
	}
	if l.w || (write && l.r > 0) {
		panic(ErrSelfDeadlock{fmt.Sprintf("acquire write=%v while held (writer=%v readers=%d)", write, l.w, l.r)})
	}
	if write {
		l.w = true
	} else {
		l.r++
	}
}

// LockRelease is called by the sync shim after releasing the real lock.
//
//go:norace
func LockRelease(key interface{}, write bool) {
	w := W
	if w != nil && w.Sched != nil && w.Sched.active && w.Sched.cur != nil {
		s := w.Sched
		t := s.cur
		// the scheduler goroutine updates its lock table (see Run)
		t.relK, t.relW = key, write
		for i := len(t.held) - 1; i >= 0; i-- {
			if t.held[i].key == key && t.held[i].write == write {
				t.held = append(t.held[:i:i], t.held[i+1:]...)
				break
			}
		}
		s.yield(t)
		return
	}
	if l := seqLocks[key]; l != nil {
		if write {
			l.w = false
		} else if l.r > 0 {
			l.r--
		}
	}
}

// CheckUnlock reports whether an unlock is legal in the modelled state (the
// real sync package would throw a fatal, unrecoverable error otherwise).
//
//go:norace
func CheckUnlock(key interface{}, write bool) bool {
	w := W
	if w != nil && w.Sched != nil && w.Sched.active && w.Sched.cur != nil {
		for _, h := range w.Sched.cur.held {
			if h.key == key && h.write == write {
				return true
			}
		}
		return false
	}
	l := seqLocks[key]
	if l == nil {
		return false
	}
	if write {
		return l.w
	}
	return l.r > 0
}

// CurTask returns the running task's id (or -1).
//
//go:norace
func CurTask() int {
	if W != nil && W.Sched != nil && W.Sched.cur != nil {
		return W.Sched.cur.ID
	}
	return -1
}

// Cur returns the running task (nil outside scheduled runs).
//
//go:norace
func (s *Sched) Cur() *Task { return s.cur }

// Tasks returns the registered tasks.
func (s *Sched) Tasks() []*Task { return s.tasks }

// release applies a task's pending unlock to the lock table (scheduler goroutine only).
//
//go:norace
func (s *Sched) release(t *Task) {
	if ls := s.locks[t.relK]; ls != nil {
		if t.relW {
			if ls.writer == t {
				ls.writer = nil
			}
		} else if ls.readers[t] > 0 {
			ls.readers[t]--
			if ls.readers[t] == 0 {
				delete(ls.readers, t)
			}
		}
	}
	t.relK = nil
}
