// Package core is the simulator proper: one World owns the simulated clock,
// the simulated disk, the seeded random streams, the cooperative scheduler,
// the fault plan and the event log.  The sim* shim packages that replace
// os/time/sync/... in the scratch copy of nutsdb are thin wrappers over the
// current World (W).  One World is live per OS process at a time.
package core

import (
	"fmt"
	"hash/fnv"
	"math"
)

// Rng is a SplitMix64 stream.  Every random decision of a run is drawn from a
// stream derived from the run seed, one stream per concern, so that adding a
// draw in one place does not shift another.
type Rng struct{ s uint64 }

//go:norace
func NewRng(seed uint64) *Rng { return &Rng{s: seed} }

//go:norace
func (r *Rng) Uint64() uint64 {
	r.s += 0x9e3779b97f4a7c15
	z := r.s
	z = (z ^ (z >> 30)) * 0xbf58476d1ce4e5b9
	z = (z ^ (z >> 27)) * 0x94d049bb133111eb
	return z ^ (z >> 31)
}

// Derive returns an independent stream labelled by s.
//
//go:norace
func (r *Rng) Derive(label string) *Rng {
	h := fnv.New64a()
	h.Write([]byte(label))
	return &Rng{s: mix(r.s ^ h.Sum64())}
}

//go:norace
func mix(z uint64) uint64 {
	z = (z ^ (z >> 30)) * 0xbf58476d1ce4e5b9
	z = (z ^ (z >> 27)) * 0x94d049bb133111eb
	return z ^ (z >> 31)
}

// Mix hashes several integers into one seed.
//
//go:norace
func Mix(xs ...uint64) uint64 {
	var s uint64 = 0x243f6a8885a308d3
	for _, x := range xs {
		s = mix(s ^ (x + 0x9e3779b97f4a7c15 + (s << 6) + (s >> 2)))
	}
	return s
}

//go:norace
func (r *Rng) Intn(n int) int {
	if n <= 0 {
		return 0
	}
	return int(r.Uint64() % uint64(n))
}

//go:norace
func (r *Rng) Int63() int64 { return int64(r.Uint64() >> 1) }

//go:norace
func (r *Rng) Float64() float64 { return float64(r.Uint64()>>11) / float64(1<<53) }

//go:norace
func (r *Rng) Bool(p float64) bool {
	return r.Float64() < p
}

// Range returns a value in [lo,hi].
//
//go:norace
func (r *Rng) Range(lo, hi int) int {
	if hi <= lo {
		return lo
	}
	return lo + r.Intn(hi-lo+1)
}

// World is one simulated machine: clock + disk + random + scheduler + faults.
type World struct {
	Seed   uint64
	Clock  *Clock
	Disk   *Disk
	Rand   *Rng // feeds the math/rand shim
	Sched  *Sched
	Faults *FaultPlan
	Log    *EventLog

	// Step bookkeeping maintained by the executor; used to address faults
	// and to label crash images.
	StepID   int // stable id of the step being executed (-1 outside steps)
	StepIOP  int // I/O points seen in this step (all disk calls)
	StepFMP  int // file-mutation points seen in this step
	IOPTotal int
	FMPTotal int

	// Recovery-oracle bookkeeping (executor-maintained).
	Acked    int // number of acknowledged write transactions so far
	InFlight int // index of the write transaction whose commit is in progress, or -1
	Phase    string
	// SnapInfo, if set, supplies the (acked, in-flight) stamps of an image
	// (scheduled runs: the lock-grant stamp of the latest acknowledged write
	// transaction and the current event sequence number).
	SnapInfo func() (int, int)
	// FDLimit is the simulated RLIMIT_NOFILE: an open beyond it fails with
	// EMFILE (0 = unlimited).  nutsdb needs a handful of descriptors at a
	// time, whatever the number of segments.
	FDLimit int

	Stats Stats
}

// Stats counts what actually happened (fired), not what was configured.
type Stats struct {
	Faults     map[string]int // fault kind -> times fired
	Probes     map[string]int // rare-condition probes
	IOByKind   map[string]int
	SimAdvance int64 // ns of simulated time covered
	Yields     int
	Switches   int
}

//go:norace
func (s *Stats) init() {
	if s.Faults == nil {
		s.Faults = map[string]int{}
		s.Probes = map[string]int{}
		s.IOByKind = map[string]int{}
	}
}

// W is the current world.  The shims use it.
var W *World

// NewWorld builds a fresh world with an empty disk.
//
//go:norace
func NewWorld(seed uint64) *World {
	base := NewRng(seed)
	w := &World{Seed: seed, StepID: -1, InFlight: -1, FDLimit: DefaultFDLimit}
	w.Stats.init()
	w.Log = &EventLog{}
	w.Clock = newClock(w, base.Derive("clock"))
	w.Disk = newDisk(w)
	w.Rand = base.Derive("mathrand")
	w.Faults = &FaultPlan{}
	return w
}

// Use makes w the current world and returns the previous one.
//
//go:norace
func Use(w *World) *World {
	old := W
	W = w
	return old
}

// Probe counts a "this rare condition was hit" event.
//
//go:norace
func Probe(name string) {
	if W != nil && W.Sched == nil {
		W.Stats.Probes[name]++
	}
}

// DefaultFDLimit is the descriptor limit of every simulated process.
const DefaultFDLimit = 24

// BeginStep / EndStep delimit one program step for fault addressing.
//
//go:norace
func (w *World) BeginStep(id int) {
	w.StepID = id
	w.StepIOP = 0
	w.StepFMP = 0
	w.Disk.flushMmapStores("step-begin")
	w.Faults.beginStep()
}

//go:norace
func (w *World) EndStep() {
	w.Disk.flushMmapStores("step-end")
	w.StepID = -1
}

// EventLog is an order-sensitive hash of everything the simulator decided or
// observed, plus (optionally) the readable lines.  Nothing in here draws from
// a PRNG or reads a real clock.
type EventLog struct {
	H     uint64
	N     int
	Keep  bool
	Lines []string
}

//go:norace
func (l *EventLog) Add(format string, args ...interface{}) {
	if l == nil {
		return
	}
	var s string
	if len(args) == 0 {
		s = format
	} else {
		s = fmt.Sprintf(format, args...)
	}
	h := fnv.New64a()
	var b [8]byte
	for i := 0; i < 8; i++ {
		b[i] = byte(l.H >> (8 * i))
	}
	h.Write(b[:])
	h.Write([]byte(s))
	l.H = h.Sum64()
	l.N++
	if l.Keep {
		l.Lines = append(l.Lines, s)
	}
}

// HashBytes is the content hash used in event lines.
//
//go:norace
func HashBytes(b []byte) uint64 {
	h := fnv.New64a()
	h.Write(b)
	return h.Sum64()
}

var _ = math.MaxInt64
