package core

import (
	"fmt"
	"io"
	"os"
	"path"
	"strings"
	"syscall"
	"time"
)

// Disk is an in-memory POSIX-like file system with a page cache (volatile
// image) and a durable image per file.  Every call is an I/O point (IOP);
// every mutating call is a file-mutation point (FMP) at which the fault plan
// may take a crash / torn-write / power-loss image or make the call fail.
type Disk struct {
	w         *World
	Root      *Node
	nextIno   int
	mapped    []*Inode // inodes with live mappings, in mapping order
	openFiles int      // descriptors open now
	inFlush   bool
}

// Node is a directory entry.
type Node struct {
	Name    string
	Dir     bool
	Mode    os.FileMode
	Ents    *DirEnts // directories: live entries
	Ghosts  *DirEnts // directories: removed entries whose removal is not yet durable
	Ino     *Inode   // files
	Durable bool     // the directory entry itself is durable
	MTime   int64
}

// DirEnts is a small name -> node table kept as parallel sorted slices.  It is
// not a Go map on purpose: in race-detector builds the runtime annotates every
// map access, and the simulator's own tables are touched by every task without
// (and must stay without) happens-before edges of their own.
type DirEnts struct {
	names []string
	nodes []*Node
}

//go:norace
func newDirEnts() *DirEnts { return &DirEnts{} }

//go:norace
func (d *DirEnts) find(name string) (int, bool) {
	if d == nil {
		return 0, false
	}
	lo, hi := 0, len(d.names)
	for lo < hi {
		m := (lo + hi) / 2
		if d.names[m] < name {
			lo = m + 1
		} else {
			hi = m
		}
	}
	return lo, lo < len(d.names) && d.names[lo] == name
}

//go:norace
func (d *DirEnts) Get(name string) *Node {
	i, ok := d.find(name)
	if !ok {
		return nil
	}
	return d.nodes[i]
}

//go:norace
func (d *DirEnts) Put(name string, n *Node) {
	i, ok := d.find(name)
	if ok {
		d.nodes[i] = n
		return
	}
	d.names = append(d.names, "")
	d.nodes = append(d.nodes, nil)
	for j := len(d.names) - 1; j > i; j-- {
		d.names[j] = d.names[j-1]
		d.nodes[j] = d.nodes[j-1]
	}
	d.names[i] = name
	d.nodes[i] = n
}

//go:norace
func (d *DirEnts) Del(name string) {
	i, ok := d.find(name)
	if !ok {
		return
	}
	d.names = append(d.names[:i:i], d.names[i+1:]...)
	d.nodes = append(d.nodes[:i:i], d.nodes[i+1:]...)
}

// Len returns the number of entries.
//
//go:norace
func (d *DirEnts) Len() int {
	if d == nil {
		return 0
	}
	return len(d.names)
}

// Names returns the entry names in ascending order (a copy).
//
//go:norace
func (d *DirEnts) Names() []string {
	if d == nil {
		return nil
	}
	out := make([]string, len(d.names))
	for i := range d.names {
		out[i] = d.names[i]
	}
	return out
}

// Nodes returns the entries in name order (a copy).
//
//go:norace
func (d *DirEnts) Nodes() []*Node {
	if d == nil {
		return nil
	}
	out := make([]*Node, len(d.nodes))
	for i := range d.nodes {
		out[i] = d.nodes[i]
	}
	return out
}

// Inode is the content of a regular file.
type Inode struct {
	ID         int
	Data       []byte // volatile image (what any reader sees now)
	Synced     []byte // content as of the last successful sync
	EverSynced bool
	Pending    []PendOp // operations since the last sync, in order
	nmap       int      // live mappings
	shadow     []byte   // copy of Data as of the last disk event (only while mapped)
	Links      int
}

// PendOp is an unsynced operation on a file.
type PendOp struct {
	Trunc bool
	Size  int64
	Off   int64
	Data  []byte
}

//go:norace
func newDisk(w *World) *Disk {
	return &Disk{w: w, Root: &Node{Name: "/", Dir: true, Mode: os.ModeDir | 0755, Ents: newDirEnts(), Durable: true}}
}

//go:norace
func split(p string) []string {
	p = path.Clean("/" + p)
	if p == "/" {
		return nil
	}
	return strings.Split(p[1:], "/")
}

//go:norace
func perr(op, p string, e error) error { return &os.PathError{Op: op, Path: p, Err: e} }

// lookup returns the parent directory node, the final name, and the node (nil if absent).
//
//go:norace
func (d *Disk) lookup(op, p string) (parent *Node, name string, n *Node, err error) {
	parts := split(p)
	cur := d.Root
	if len(parts) == 0 {
		return nil, "", cur, nil
	}
	for i, c := range parts {
		if !cur.Dir {
			return nil, "", nil, perr(op, p, syscall.ENOTDIR)
		}
		nx := cur.Ents.Get(c)
		if i == len(parts)-1 {
			return cur, c, nx, nil
		}
		if nx == nil {
			return nil, "", nil, perr(op, p, syscall.ENOENT)
		}
		cur = nx
	}
	return nil, "", nil, perr(op, p, syscall.ENOENT)
}

// ---------------------------------------------------------------- I/O points

// Action is what the fault plan decided for one I/O point.
type Action struct {
	Kind string // "" (proceed), "eio", "short", "enospc", "emfile", "eacces", "syncfail-durable", "syncfail-lost"
	N    int    // for "short": bytes actually written
}

// enter is called at the start of every disk call.
//
//go:norace
func (d *Disk) enter(class, p string, off int64, data []byte, mutating bool, ino *Inode) Action {
	w := d.w
	Yield("io:" + class)
	if !d.inFlush {
		d.flushMmapStores(class)
	}
	w.StepIOP++
	w.IOPTotal++
	if w.Sched == nil {
		w.Stats.IOByKind[class]++
	}
	if mutating {
		w.StepFMP++
		w.FMPTotal++
	}
	if w.Log.Keep || mutating {
		if data != nil {
			w.Log.Add("io %s %s off=%d len=%d h=%x", class, p, off, len(data), HashBytes(data))
		} else {
			w.Log.Add("io %s %s off=%d", class, p, off)
		}
	}
	return w.Faults.at(w, class, p, off, data, mutating, ino)
}

// flushMmapStores finds stores made through live mappings since the last disk
// event and turns each into a synthetic "mmap-store" FMP (so that it can be a
// crash / torn / power-loss point and is recorded as an unsynced operation).
//
//go:norace
func (d *Disk) flushMmapStores(why string) {
	if len(d.mapped) == 0 || d.inFlush {
		return
	}
	d.inFlush = true
	defer func() { d.inFlush = false }()
	for _, ino := range d.mapped {
		a, b := diffRange(ino.shadow, ino.Data)
		if a < 0 {
			continue
		}
		newBytes := rawClone(ino.Data[a:b])
		w := d.w
		w.StepFMP++
		w.FMPTotal++
		w.StepIOP++
		w.IOPTotal++
		if w.Sched == nil {
			w.Stats.IOByKind["mmap-store"]++
		}
		w.Log.Add("io mmap-store ino=%d off=%d len=%d h=%x", ino.ID, a, len(newBytes), HashBytes(newBytes))
		// present the pre-store content to the fault plan: a crash "before"
		// this point must not contain the store.
		w.Faults.mmapOverride = ino
		w.Faults.mmapPre = ino.shadow
		w.Faults.at(w, "mmap-store", fmt.Sprintf("ino:%d", ino.ID), int64(a), newBytes, true, ino)
		w.Faults.mmapOverride = nil
		w.Faults.mmapPre = nil
		ino.Pending = append(ino.Pending, PendOp{Off: int64(a), Data: newBytes})
		rawCopy(ino.shadow[a:b], newBytes)
	}
}

// FlushMmap turns pending mmap stores into FMPs now.  The executor calls it
// before it changes the recovery-oracle bookkeeping (acknowledgement of a
// transaction, phase changes), so that a store is attributed to the operation
// that made it.
//
//go:norace
func (d *Disk) FlushMmap() { d.flushMmapStores("sync-point") }

// rawCopy is copy() without the race detector's range annotations: file
// content is kernel memory in the real system, not Go memory, so accesses to
// it by the simulator must not be reported (or ordered) by the detector.
//
//go:norace
func rawCopy(dst, src []byte) int {
	n := len(src)
	if len(dst) < n {
		n = len(dst)
	}
	for i := 0; i < n; i++ {
		dst[i] = src[i]
	}
	return n
}

//go:norace
func rawClone(src []byte) []byte {
	out := make([]byte, len(src))
	for i := range src {
		out[i] = src[i]
	}
	return out
}

//go:norace
func diffRange(old, cur []byte) (int, int) {
	n := len(cur)
	if len(old) < n {
		n = len(old)
	}
	a := -1
	for i := 0; i < n; i++ {
		if old[i] != cur[i] {
			a = i
			break
		}
	}
	if a < 0 {
		return -1, -1
	}
	b := a + 1
	for i := n - 1; i > a; i-- {
		if old[i] != cur[i] {
			b = i + 1
			break
		}
	}
	return a, b
}

// ---------------------------------------------------------------- files

// File is an open file (or directory) handle.
type File struct {
	d      *Disk
	path   string
	node   *Node // the entry it was opened through (may have been removed since)
	ino    *Inode
	flags  int
	pos    int64
	closed bool
	dirPos int
}

//go:norace
func (d *Disk) OpenFile(name string, flag int, perm os.FileMode) (*File, error) {
	class := "open"
	act := d.enter(class, name, int64(flag), nil, flag&os.O_CREATE != 0 || flag&os.O_TRUNC != 0, nil)
	switch act.Kind {
	case "emfile", "eio":
		return nil, perr("open", name, syscall.EMFILE)
	case "enospc":
		return nil, perr("open", name, syscall.ENOSPC)
	case "eacces":
		return nil, perr("open", name, syscall.EACCES)
	}
	if lim := d.w.FDLimit; lim > 0 && d.openFiles >= lim {
		// the simulated process is out of descriptors (RLIMIT_NOFILE)
		d.w.Stats.Probes["emfile-by-descriptor-limit"]++
		if debugFaults {
			fmt.Fprintf(os.Stderr, "descriptor limit: open %s refused in step %d phase %q (%d open)\n", name, d.w.StepID, d.w.Phase, d.openFiles)
		}
		return nil, perr("open", name, syscall.EMFILE)
	}
	parent, base, n, err := d.lookup("open", name)
	if err != nil {
		return nil, err
	}
	if n == nil {
		if flag&os.O_CREATE == 0 {
			return nil, perr("open", name, syscall.ENOENT)
		}
		if parent == nil {
			return nil, perr("open", name, syscall.EISDIR)
		}
		d.nextIno++
		n = &Node{Name: base, Mode: perm & os.ModePerm, Ino: &Inode{ID: d.nextIno, Links: 1}, MTime: d.w.Clock.NowNS()}
		parent.Ents.Put(base, n)
		// a re-created name supersedes a ghost of the same name only once durable;
		// keep the ghost: power loss may bring the old file back instead.
	} else {
		if flag&os.O_CREATE != 0 && flag&os.O_EXCL != 0 {
			return nil, perr("open", name, syscall.EEXIST)
		}
		if n.Dir && flag&(os.O_WRONLY|os.O_RDWR) != 0 {
			return nil, perr("open", name, syscall.EISDIR)
		}
		if !n.Dir && flag&os.O_TRUNC != 0 && flag&(os.O_WRONLY|os.O_RDWR) != 0 {
			d.truncate(n.Ino, 0)
		}
	}
	d.openFiles++
	switch d.openFiles {
	case 8, 16, 32, 64, 128:
		d.w.Stats.Probes[fmt.Sprintf("open-descriptors-reached-%d", d.openFiles)]++
	}
	return &File{d: d, path: name, node: n, ino: n.Ino, flags: flag}, nil
}

//go:norace
func (d *Disk) truncate(ino *Inode, size int64) {
	if int64(len(ino.Data)) == size {
		ino.Pending = append(ino.Pending, PendOp{Trunc: true, Size: size})
		return
	}
	if ino.nmap > 0 {
		// real mappings keep working for the pages that still exist; the
		// simulator does not model resizing under a live mapping.
		panic("simdisk: truncate of a file with a live mapping is not modelled")
	}
	if size < int64(len(ino.Data)) {
		ino.Data = ino.Data[:size:size]
	} else {
		nd := make([]byte, size)
		rawCopy(nd, ino.Data)
		ino.Data = nd
	}
	ino.Pending = append(ino.Pending, PendOp{Trunc: true, Size: size})
}

//go:norace
func (f *File) Name() string { return f.path }

//go:norace
func (f *File) check(op string) error {
	if f == nil {
		return os.ErrInvalid
	}
	if f.closed {
		return perr(op, f.path, os.ErrClosed)
	}
	return nil
}

//go:norace
func (f *File) ReadAt(b []byte, off int64) (int, error) {
	if err := f.check("read"); err != nil {
		return 0, err
	}
	if len(b) == 0 {
		return 0, nil
	}
	if f.node.Dir {
		return 0, perr("read", f.path, syscall.EISDIR)
	}
	if off < 0 {
		return 0, perr("readat", f.path, fmt.Errorf("negative offset"))
	}
	act := f.d.enter("read", f.path, off, nil, false, f.ino)
	if act.Kind == "eio" {
		return 0, perr("read", f.path, syscall.EIO)
	}
	if f.flags&(os.O_WRONLY) != 0 {
		return 0, perr("read", f.path, syscall.EBADF)
	}
	data := f.ino.Data
	if off >= int64(len(data)) {
		if len(b) == 0 {
			return 0, nil
		}
		return 0, io.EOF
	}
	n := rawCopy(b, data[off:])
	if n < len(b) {
		return n, io.EOF
	}
	return n, nil
}

//go:norace
func (f *File) Read(b []byte) (int, error) {
	if err := f.check("read"); err != nil {
		return 0, err
	}
	if len(b) == 0 {
		return 0, nil
	}
	if f.node.Dir {
		return 0, perr("read", f.path, syscall.EISDIR)
	}
	if f.flags&os.O_WRONLY != 0 {
		return 0, perr("read", f.path, syscall.EBADF)
	}
	act := f.d.enter("read", f.path, f.pos, nil, false, f.ino)
	if act.Kind == "eio" {
		return 0, perr("read", f.path, syscall.EIO)
	}
	data := f.ino.Data
	if f.pos >= int64(len(data)) {
		if len(b) == 0 {
			return 0, nil
		}
		return 0, io.EOF
	}
	n := rawCopy(b, data[f.pos:])
	f.pos += int64(n)
	return n, nil
}

//go:norace
func (f *File) writeAt(b []byte, off int64, op string) (int, error) {
	if len(b) == 0 {
		return 0, nil
	}
	if f.node.Dir {
		return 0, perr(op, f.path, syscall.EBADF)
	}
	if f.flags&(os.O_WRONLY|os.O_RDWR) == 0 {
		return 0, perr(op, f.path, syscall.EBADF)
	}
	act := f.d.enter("write", f.path, off, b, true, f.ino)
	switch act.Kind {
	case "eio":
		return 0, perr(op, f.path, syscall.EIO)
	case "enospc":
		return 0, perr(op, f.path, syscall.ENOSPC)
	case "short":
		n := act.N
		if n >= len(b) {
			n = len(b) - 1 // a short write never transfers everything
		}
		if n < 0 {
			n = 0
		}
		// The bytes not transferred must leave the file different from a
		// complete write (nutsdb preallocates zero-filled segments, so a
		// record ending in zero bytes could otherwise be "torn" into exactly
		// the complete record): stop before the last byte that changes anything.
		last := -1
		for i := len(b) - 1; i >= 0; i-- {
			pos := off + int64(i)
			if pos >= int64(len(f.ino.Data)) || f.ino.Data[pos] != b[i] {
				last = i
				break
			}
		}
		if last >= 0 && n > last {
			n = last
		}
		f.d.apply(f.ino, b[:n], off)
		return n, perr(op, f.path, syscall.ENOSPC)
	}
	f.d.apply(f.ino, b, off)
	f.node.MTime = f.d.w.Clock.NowNS()
	return len(b), nil
}

//go:norace
func (d *Disk) apply(ino *Inode, b []byte, off int64) {
	if len(b) == 0 {
		return
	}
	end := off + int64(len(b))
	if end > int64(len(ino.Data)) {
		if ino.nmap > 0 {
			panic("simdisk: extending a file with a live mapping is not modelled")
		}
		nd := make([]byte, end)
		rawCopy(nd, ino.Data)
		ino.Data = nd
	}
	rawCopy(ino.Data[off:end], b)
	if ino.nmap > 0 {
		rawCopy(ino.shadow[off:end], b)
	}
	ino.Pending = append(ino.Pending, PendOp{Off: off, Data: rawClone(b)})
}

//go:norace
func (f *File) WriteAt(b []byte, off int64) (int, error) {
	if err := f.check("write"); err != nil {
		return 0, err
	}
	if off < 0 {
		return 0, perr("writeat", f.path, fmt.Errorf("negative offset"))
	}
	if f.flags&os.O_APPEND != 0 {
		return 0, fmt.Errorf("os: invalid use of WriteAt on file opened with O_APPEND")
	}
	return f.writeAt(b, off, "write")
}

//go:norace
func (f *File) Write(b []byte) (int, error) {
	if err := f.check("write"); err != nil {
		return 0, err
	}
	if len(b) == 0 && (f.node.Dir || f.flags&(os.O_WRONLY|os.O_RDWR) == 0) {
		return 0, perr("write", f.path, syscall.EBADF)
	}
	if f.flags&os.O_APPEND != 0 {
		f.pos = int64(len(f.ino.Data))
	}
	n, err := f.writeAt(b, f.pos, "write")
	f.pos += int64(n)
	return n, err
}

//go:norace
func (f *File) WriteString(s string) (int, error) { return f.Write([]byte(s)) }

//go:norace
func (f *File) Seek(offset int64, whence int) (int64, error) {
	if err := f.check("seek"); err != nil {
		return 0, err
	}
	var np int64
	switch whence {
	case io.SeekStart:
		np = offset
	case io.SeekCurrent:
		np = f.pos + offset
	case io.SeekEnd:
		if f.ino == nil {
			return 0, perr("seek", f.path, syscall.EINVAL)
		}
		np = int64(len(f.ino.Data)) + offset
	default:
		return 0, perr("seek", f.path, syscall.EINVAL)
	}
	if np < 0 {
		return 0, perr("seek", f.path, syscall.EINVAL)
	}
	f.pos = np
	return np, nil
}

//go:norace
func (f *File) Truncate(size int64) error {
	if err := f.check("truncate"); err != nil {
		return err
	}
	if f.node.Dir || f.flags&(os.O_WRONLY|os.O_RDWR) == 0 {
		return perr("truncate", f.path, syscall.EINVAL)
	}
	if size < 0 {
		return perr("truncate", f.path, syscall.EINVAL)
	}
	act := f.d.enter("trunc", f.path, size, nil, true, f.ino)
	switch act.Kind {
	case "eio", "enospc":
		return perr("truncate", f.path, syscall.ENOSPC)
	}
	f.d.truncate(f.ino, size)
	return nil
}

//go:norace
func (f *File) Sync() error {
	if err := f.check("sync"); err != nil {
		return err
	}
	act := f.d.enter("sync", f.path, 0, nil, true, f.ino)
	switch act.Kind {
	case "eio", "syncfail-lost":
		return perr("sync", f.path, syscall.EIO)
	case "syncfail-durable":
		f.d.syncNode(f.node)
		return perr("sync", f.path, syscall.EIO)
	}
	f.d.syncNode(f.node)
	return nil
}

//go:norace
func (d *Disk) syncNode(n *Node) {
	if n.Dir {
		// fsync of a directory makes its entries (creations and removals) durable
		for _, e := range n.Ents.Nodes() {
			e.Durable = true
		}
		n.Ghosts = nil
		return
	}
	d.syncInode(n.Ino)
	// assumption granted by C11: a sync of a file also persists its directory entry
	n.Durable = true
}

//go:norace
func (d *Disk) syncInode(ino *Inode) {
	ino.Synced = rawClone(ino.Data)
	ino.EverSynced = true
	ino.Pending = nil
}

//go:norace
func (f *File) Close() error {
	if f == nil {
		return os.ErrInvalid
	}
	if f.closed {
		return perr("close", f.path, os.ErrClosed)
	}
	f.d.enter("close", f.path, 0, nil, false, f.ino)
	f.closed = true
	f.d.openFiles--
	return nil
}

//go:norace
func (f *File) Stat() (os.FileInfo, error) {
	if err := f.check("stat"); err != nil {
		return nil, err
	}
	return infoOf(f.node), nil
}

//go:norace
func (f *File) Chmod(m os.FileMode) error {
	if err := f.check("chmod"); err != nil {
		return err
	}
	f.node.Mode = f.node.Mode&^os.ModePerm | m&os.ModePerm
	return nil
}

// Readdir reads the directory (n<=0: all remaining).
//
//go:norace
func (f *File) Readdir(n int) ([]os.FileInfo, error) {
	if err := f.check("readdir"); err != nil {
		return nil, err
	}
	if !f.node.Dir {
		return nil, perr("readdir", f.path, syscall.ENOTDIR)
	}
	f.d.enter("readdir", f.path, 0, nil, false, nil)
	all := listDir(f.node)
	if f.dirPos > len(all) {
		f.dirPos = len(all)
	}
	rest := all[f.dirPos:]
	if n > 0 {
		if len(rest) == 0 {
			return nil, io.EOF
		}
		if len(rest) > n {
			rest = rest[:n]
		}
	}
	f.dirPos += len(rest)
	return rest, nil
}

//go:norace
func (f *File) Readdirnames(n int) ([]string, error) {
	fis, err := f.Readdir(n)
	var out []string
	for _, fi := range fis {
		out = append(out, fi.Name())
	}
	return out, err
}

// Inode exposes the inode (used by the mmap shim).
//
//go:norace
func (f *File) Inode() *Inode { return f.ino }

//go:norace
func (f *File) Disk() *Disk { return f.d }

//go:norace
func (f *File) IsDir() bool { return f.node.Dir }

//go:norace
func (f *File) Flags() int { return f.flags }

//go:norace
func (f *File) Closed() bool { return f.closed }

// ---------------------------------------------------------------- namespace ops

//go:norace
func (d *Disk) Stat(name string) (os.FileInfo, error) {
	d.enter("stat", name, 0, nil, false, nil)
	_, _, n, err := d.lookup("stat", name)
	if err != nil {
		return nil, err
	}
	if n == nil {
		return nil, perr("stat", name, syscall.ENOENT)
	}
	return infoOf(n), nil
}

//go:norace
func (d *Disk) Mkdir(name string, perm os.FileMode) error {
	act := d.enter("mkdir", name, 0, nil, true, nil)
	if act.Kind != "" {
		return perr("mkdir", name, syscall.ENOSPC)
	}
	parent, base, n, err := d.lookup("mkdir", name)
	if err != nil {
		return err
	}
	if n != nil || parent == nil {
		return perr("mkdir", name, syscall.EEXIST)
	}
	// assumption (DESIGN §2.3): directories are durable once created
	parent.Ents.Put(base, &Node{Name: base, Dir: true, Mode: os.ModeDir | perm&os.ModePerm, Ents: newDirEnts(), Durable: true, MTime: d.w.Clock.NowNS()})
	return nil
}

//go:norace
func (d *Disk) MkdirAll(name string, perm os.FileMode) error {
	parts := split(name)
	cur := ""
	for _, c := range parts {
		cur += "/" + c
		_, _, n, err := d.lookup("mkdir", cur)
		if err != nil {
			return err
		}
		if n != nil {
			if !n.Dir {
				return perr("mkdir", cur, syscall.ENOTDIR)
			}
			continue
		}
		if err := d.Mkdir(cur, perm); err != nil {
			return err
		}
	}
	return nil
}

//go:norace
func (d *Disk) Remove(name string) error {
	act := d.enter("remove", name, 0, nil, true, nil)
	if act.Kind != "" {
		return perr("remove", name, syscall.EIO)
	}
	parent, base, n, err := d.lookup("remove", name)
	if err != nil {
		return err
	}
	if n == nil {
		return perr("remove", name, syscall.ENOENT)
	}
	if parent == nil {
		return perr("remove", name, syscall.EBUSY)
	}
	if n.Dir && n.Ents.Len() > 0 {
		return perr("remove", name, syscall.ENOTEMPTY)
	}
	parent.Ents.Del(base)
	if n.Durable && !n.Dir {
		if parent.Ghosts == nil {
			parent.Ghosts = newDirEnts()
		}
		parent.Ghosts.Put(base, n)
	}
	return nil
}

//go:norace
func (d *Disk) RemoveAll(name string) error {
	_, _, n, err := d.lookup("remove", name)
	if err != nil || n == nil {
		return nil
	}
	if n.Dir {
		for _, k := range n.Ents.Names() {
			if err := d.RemoveAll(path.Join(name, k)); err != nil {
				return err
			}
		}
	}
	if len(split(name)) == 0 {
		return nil
	}
	return d.Remove(name)
}

//go:norace
func (d *Disk) Rename(oldp, newp string) error {
	act := d.enter("rename", oldp+"->"+newp, 0, nil, true, nil)
	if act.Kind != "" {
		return &os.LinkError{Op: "rename", Old: oldp, New: newp, Err: syscall.EIO}
	}
	op, ob, on, err := d.lookup("rename", oldp)
	if err != nil {
		return err
	}
	if on == nil || op == nil {
		return &os.LinkError{Op: "rename", Old: oldp, New: newp, Err: syscall.ENOENT}
	}
	np, nb, nn, err := d.lookup("rename", newp)
	if err != nil {
		return err
	}
	if np == nil {
		return &os.LinkError{Op: "rename", Old: oldp, New: newp, Err: syscall.EINVAL}
	}
	if nn != nil {
		if nn.Dir != on.Dir || (nn.Dir && nn.Ents.Len() > 0) {
			return &os.LinkError{Op: "rename", Old: oldp, New: newp, Err: syscall.EEXIST}
		}
		if nn.Durable && !nn.Dir {
			if np.Ghosts == nil {
				np.Ghosts = newDirEnts()
			}
			np.Ghosts.Put(nb, nn)
		}
	}
	op.Ents.Del(ob)
	if on.Durable && !on.Dir {
		if op.Ghosts == nil {
			op.Ghosts = newDirEnts()
		}
		// the old name may come back after power loss
		g := *on
		op.Ghosts.Put(ob, &g)
	}
	moved := *on
	moved.Name = nb
	moved.Durable = on.Dir
	np.Ents.Put(nb, &moved)
	return nil
}

//go:norace
func (d *Disk) Chmod(name string, m os.FileMode) error {
	d.enter("chmod", name, 0, nil, false, nil)
	_, _, n, err := d.lookup("chmod", name)
	if err != nil {
		return err
	}
	if n == nil {
		return perr("chmod", name, syscall.ENOENT)
	}
	n.Mode = n.Mode&^os.ModePerm | m&os.ModePerm
	return nil
}

//go:norace
func (d *Disk) TruncatePath(name string, size int64) error {
	f, err := d.OpenFile(name, os.O_WRONLY, 0)
	if err != nil {
		return err
	}
	defer f.Close()
	return f.Truncate(size)
}

// ReadDir lists a directory sorted by name.
//
//go:norace
func (d *Disk) ReadDir(name string) ([]os.FileInfo, error) {
	d.enter("readdir", name, 0, nil, false, nil)
	_, _, n, err := d.lookup("open", name)
	if err != nil {
		return nil, err
	}
	if n == nil {
		return nil, perr("open", name, syscall.ENOENT)
	}
	if !n.Dir {
		return nil, perr("readdirent", name, syscall.ENOTDIR)
	}
	return listDir(n), nil
}

//go:norace
func listDir(n *Node) []os.FileInfo {
	nodes := n.Ents.Nodes()
	out := make([]os.FileInfo, 0, len(nodes))
	for _, e := range nodes {
		out = append(out, infoOf(e))
	}
	return out
}

// FileInfo implementation.
type fileInfo struct {
	name  string
	size  int64
	mode  os.FileMode
	mtime int64
	dir   bool
}

//go:norace
func (fi *fileInfo) Name() string { return fi.name }

//go:norace
func (fi *fileInfo) Size() int64 { return fi.size }

//go:norace
func (fi *fileInfo) Mode() os.FileMode { return fi.mode }

//go:norace
func (fi *fileInfo) ModTime() time.Time { return time.Unix(0, fi.mtime) }

//go:norace
func (fi *fileInfo) IsDir() bool { return fi.dir }

//go:norace
func (fi *fileInfo) Sys() interface{} { return nil }

//go:norace
func infoOf(n *Node) os.FileInfo {
	fi := &fileInfo{name: n.Name, mode: n.Mode, mtime: n.MTime, dir: n.Dir}
	if n.Dir {
		fi.mode |= os.ModeDir
		fi.size = 4096
	} else {
		fi.size = int64(len(n.Ino.Data))
	}
	return fi
}

// ---------------------------------------------------------------- mmap support

// MapInode registers a live mapping and returns the mapped bytes, which ARE the
// file's volatile image (MAP_SHARED).
//
//go:norace
func (d *Disk) MapInode(f *File) ([]byte, error) {
	if err := f.check("mmap"); err != nil {
		return nil, err
	}
	if f.node.Dir {
		return nil, syscall.ENODEV
	}
	ino := f.ino
	act := d.enter("mmap", f.path, 0, nil, false, ino)
	if act.Kind != "" {
		return nil, syscall.ENOMEM
	}
	if len(ino.Data) == 0 {
		return nil, syscall.EINVAL
	}
	if ino.nmap == 0 {
		ino.shadow = rawClone(ino.Data)
		d.mapped = append(d.mapped, ino)
	}
	ino.nmap++
	return ino.Data[:len(ino.Data):len(ino.Data)], nil
}

// FlushInode is msync.
//
//go:norace
func (d *Disk) FlushInode(ino *Inode, name string) error {
	act := d.enter("msync", name, 0, nil, true, ino)
	switch act.Kind {
	case "eio", "syncfail-lost":
		return syscall.EIO
	case "syncfail-durable":
		d.syncMapped(ino)
		return syscall.EIO
	}
	d.syncMapped(ino)
	return nil
}

//go:norace
func (d *Disk) syncMapped(ino *Inode) {
	d.syncInode(ino)
	// the directory entry: find it (assumption as for Sync)
	d.markDurable(d.Root, ino)
}

//go:norace
func (d *Disk) markDurable(n *Node, ino *Inode) bool {
	for _, e := range n.Ents.Nodes() {
		if e.Dir {
			if d.markDurable(e, ino) {
				return true
			}
		} else if e.Ino == ino {
			e.Durable = true
			return true
		}
	}
	return false
}

// UnmapInode drops one mapping.
//
//go:norace
func (d *Disk) UnmapInode(ino *Inode, name string) error {
	d.enter("munmap", name, 0, nil, false, ino)
	if ino.nmap <= 0 {
		return syscall.EINVAL
	}
	ino.nmap--
	if ino.nmap == 0 {
		ino.shadow = nil
		for i, m := range d.mapped {
			if m == ino {
				d.mapped = append(d.mapped[:i:i], d.mapped[i+1:]...)
				break
			}
		}
	}
	return nil
}

// ---------------------------------------------------------------- images

// cloneTree deep-copies a tree as a *crash image*: every file has exactly its
// volatile content (the kernel page cache survives a process crash) and
// everything present counts as durable from then on.  over replaces the
// content of one inode (used for "before this mmap store" and torn writes).
//
//go:norace
func cloneCrash(n *Node, over map[*Inode][]byte) *Node {
	c := &Node{Name: n.Name, Dir: n.Dir, Mode: n.Mode, Durable: true, MTime: n.MTime}
	if n.Dir {
		c.Ents = newDirEnts()
		for _, e := range n.Ents.Nodes() {
			c.Ents.Put(e.Name, cloneCrash(e, over))
		}
		return c
	}
	data := n.Ino.Data
	if o, ok := over[n.Ino]; ok {
		data = o
	}
	d := append([]byte(nil), data...)
	c.Ino = &Inode{ID: n.Ino.ID, Data: d, Synced: d, EverSynced: true, Links: 1}
	return c
}

// CloneImage copies a mounted/mountable image (so one image can be mounted
// several times).
//
//go:norace
func CloneImage(n *Node) *Node { return cloneCrash(n, nil) }

// clonePowerLoss builds a power-loss image: each file reverts to its durable
// content plus a seeded choice among its unsynced operations; never-synced
// creations may vanish; unsynced removals may be undone.
//
//go:norace
func clonePowerLoss(n *Node, over map[*Inode][]byte, tornOp *PendOp, tornIno *Inode, r *Rng, mode int) *Node {
	c := &Node{Name: n.Name, Dir: n.Dir, Mode: n.Mode, Durable: true, MTime: n.MTime}
	if !n.Dir {
		panic("clonePowerLoss on file")
	}
	c.Ents = newDirEnts()
	for _, k := range n.Ents.Names() {
		e := n.Ents.Get(k)
		if e.Dir {
			c.Ents.Put(k, clonePowerLoss(e, over, tornOp, tornIno, r, mode))
			continue
		}
		if !e.Durable {
			// created but the entry never made durable: may not exist
			if plChoice(r, mode, 2) == 0 {
				continue
			}
		}
		c.Ents.Put(k, &Node{Name: k, Mode: e.Mode, Durable: true, MTime: e.MTime, Ino: plInode(e.Ino, tornOp, tornIno, r, mode)})
	}
	for _, k := range n.Ghosts.Names() {
		if c.Ents.Get(k) != nil {
			continue
		}
		if plChoice(r, mode, 2) == 1 {
			g := n.Ghosts.Get(k)
			c.Ents.Put(k, &Node{Name: k, Mode: g.Mode, Durable: true, MTime: g.MTime, Ino: plInode(g.Ino, nil, nil, r, mode)})
			if W != nil {
				W.Stats.Probes["powerloss-removal-undone"]++
			}
		}
	}
	return c
}

// plChoice: mode 0 = lose everything unsynced, 1 = keep everything, 2 = seeded.
//
//go:norace
func plChoice(r *Rng, mode int, n int) int {
	switch mode {
	case 0:
		return 0
	case 1:
		return n - 1
	}
	return r.Intn(n)
}

//go:norace
func plInode(ino *Inode, tornOp *PendOp, tornIno *Inode, r *Rng, mode int) *Inode {
	var data []byte
	if ino.EverSynced {
		data = append([]byte(nil), ino.Synced...)
	}
	ops := ino.Pending
	if tornOp != nil && tornIno == ino {
		ops = append(append([]PendOp(nil), ops...), *tornOp)
	}
	if len(ops) > 0 {
		switch plChoice(r, mode, 4) {
		case 0: // none
		case 3, 1: // all (mode 1 lands here via n-1 = 3)
			for _, op := range ops {
				data = applyOp(data, op, -1)
			}
		case 2: // an order-prefix, the last one possibly torn; or an arbitrary subset
			if r.Bool(0.5) {
				k := r.Intn(len(ops) + 1)
				for i := 0; i < k; i++ {
					cut := -1
					if i == k-1 && !ops[i].Trunc && len(ops[i].Data) > 1 && r.Bool(0.5) {
						cut = 1 + r.Intn(len(ops[i].Data)-1)
					}
					data = applyOp(data, ops[i], cut)
				}
			} else {
				for _, op := range ops {
					if r.Bool(0.5) {
						data = applyOp(data, op, -1)
					}
				}
			}
		}
	}
	return &Inode{ID: ino.ID, Data: data, Synced: data, EverSynced: true, Links: 1}
}

//go:norace
func applyOp(data []byte, op PendOp, cut int) []byte {
	if op.Trunc {
		if op.Size <= int64(len(data)) {
			return data[:op.Size:op.Size]
		}
		nd := make([]byte, op.Size)
		copy(nd, data)
		return nd
	}
	b := op.Data
	if cut >= 0 && cut < len(b) {
		b = b[:cut]
	}
	end := op.Off + int64(len(b))
	if end > int64(len(data)) {
		nd := make([]byte, end)
		copy(nd, data)
		data = nd
	}
	copy(data[op.Off:end], b)
	return data
}

// Mount makes image the content of this world's disk (the image is copied).
//
//go:norace
func (d *Disk) Mount(image *Node) {
	d.Root = CloneImage(image)
	d.mapped = nil
}

// TreeDigest renders names, sizes and content hashes of a subtree, for
// "directory unchanged" comparisons and image de-duplication.
//
//go:norace
func TreeDigest(n *Node) string {
	var sb strings.Builder
	digest(&sb, n, "")
	return sb.String()
}

//go:norace
func digest(sb *strings.Builder, n *Node, prefix string) {
	p := prefix + n.Name
	if n.Dir {
		if n.Name != "/" {
			p += "/"
		}
		fmt.Fprintf(sb, "%s\n", p)
		for _, e := range n.Ents.Nodes() {
			digest(sb, e, p)
		}
		return
	}
	fmt.Fprintf(sb, "%s %d %x\n", p, len(n.Ino.Data), HashBytes(n.Ino.Data))
}

// Find returns the node at path p (nil if absent), without counting an I/O point.
//
//go:norace
func (d *Disk) Find(p string) *Node {
	_, _, n, err := d.lookup("find", p)
	if err != nil {
		return nil
	}
	return n
}

// Walk calls fn for every regular file under p, sorted.
//
//go:norace
func (d *Disk) Walk(p string, fn func(path string, n *Node)) {
	n := d.Find(p)
	if n == nil {
		return
	}
	walk(path.Clean("/"+p), n, fn)
}

//go:norace
func walk(p string, n *Node, fn func(string, *Node)) {
	if !n.Dir {
		fn(p, n)
		return
	}
	for _, e := range n.Ents.Nodes() {
		walk(path.Join(p, e.Name), e, fn)
	}
}
