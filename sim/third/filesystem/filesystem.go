package filesystem

import (
	"io"
	"path"
	ioutil "verifsim/simioutil"
	os "verifsim/simos"
)

func PathIsExist(path string) bool {
	_, err := os.Stat(path)
	if err != nil && os.IsNotExist(err) {
		return false
	}
	return true
}

// reference: https://blog.depado.eu/post/copy-files-and-directories-in-go
func CopyDir(src string, dst string) error {
	var (
		err     error
		fds     []os.FileInfo
		srcinfo os.FileInfo
	)

	if srcinfo, err = os.Stat(src); err != nil {
		return err
	}

	if err = os.MkdirAll(dst, srcinfo.Mode()); err != nil {
		return err
	}

	if fds, err = ioutil.ReadDir(src); err != nil {
		return err
	}
	for _, fd := range fds {
		srcfp := path.Join(src, fd.Name())
		dstfp := path.Join(dst, fd.Name())

		if fd.IsDir() {
			if err = CopyDir(srcfp, dstfp); err != nil {
				return err
			}
		} else {
			if err = CopyFile(srcfp, dstfp); err != nil {
				return err
			}
		}
	}
	return nil
}

func CopyFile(src, dst string) error {
	var (
		err     error
		srcfd   *os.File
		dstfd   *os.File
		srcinfo os.FileInfo
	)

	if srcfd, err = os.Open(src); err != nil {
		return err
	}

	defer srcfd.Close()

	if dstfd, err = os.Create(dst); err != nil {
		return err
	}

	defer dstfd.Close()

	if _, err = io.Copy(dstfd, srcfd); err != nil {
		return err
	}

	if srcinfo, err = os.Stat(src); err != nil {
		return err
	}

	return os.Chmod(dst, srcinfo.Mode())
}
