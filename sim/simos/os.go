// Package simos replaces "os" in the scratch copy of the system under test.
// The API surface is deliberately wider than what nutsdb uses today so that a
// changed tree still compiles; everything touches the simulated disk of the
// current world.
package simos

import (
	"io/fs"
	"os"
	"syscall"

	"verifsim/core"
)

type (
	FileInfo     = os.FileInfo
	FileMode     = os.FileMode
	PathError    = os.PathError
	LinkError    = os.LinkError
	SyscallError = os.SyscallError
	DirEntry     = os.DirEntry
	Signal       = os.Signal
)

// File is a handle on the simulated disk.
type File struct{ f *core.File }

const (
	O_RDONLY = os.O_RDONLY
	O_WRONLY = os.O_WRONLY
	O_RDWR   = os.O_RDWR
	O_APPEND = os.O_APPEND
	O_CREATE = os.O_CREATE
	O_EXCL   = os.O_EXCL
	O_SYNC   = os.O_SYNC
	O_TRUNC  = os.O_TRUNC

	ModePerm    = os.ModePerm
	ModeDir     = os.ModeDir
	ModeAppend  = os.ModeAppend
	ModeSymlink = os.ModeSymlink
	ModeType    = os.ModeType

	SEEK_SET = 0
	SEEK_CUR = 1
	SEEK_END = 2

	PathSeparator     = '/'
	PathListSeparator = ':'
	DevNull           = "/dev/null"
)

var (
	ErrInvalid    = os.ErrInvalid
	ErrPermission = os.ErrPermission
	ErrExist      = os.ErrExist
	ErrNotExist   = os.ErrNotExist
	ErrClosed     = os.ErrClosed

	Stdin  = os.Stdin
	Stdout = os.Stdout
	Stderr = os.Stderr
	Args   = os.Args
)

func disk() *core.Disk { return core.W.Disk }

func wrap(f *core.File, err error) (*File, error) {
	if err != nil {
		return nil, err
	}
	return &File{f}, nil
}

func OpenFile(name string, flag int, perm FileMode) (*File, error) {
	return wrap(disk().OpenFile(name, flag, perm))
}
func Open(name string) (*File, error) { return OpenFile(name, O_RDONLY, 0) }
func Create(name string) (*File, error) {
	return OpenFile(name, O_RDWR|O_CREATE|O_TRUNC, 0666)
}

func Remove(name string) error                  { return disk().Remove(name) }
func RemoveAll(name string) error               { return disk().RemoveAll(name) }
func Rename(oldpath, newpath string) error      { return disk().Rename(oldpath, newpath) }
func Mkdir(name string, perm FileMode) error    { return disk().Mkdir(name, perm) }
func MkdirAll(p string, perm FileMode) error    { return disk().MkdirAll(p, perm) }
func Stat(name string) (FileInfo, error)        { return disk().Stat(name) }
func Lstat(name string) (FileInfo, error)       { return disk().Stat(name) }
func Truncate(name string, size int64) error    { return disk().TruncatePath(name, size) }
func Chmod(name string, mode FileMode) error    { return disk().Chmod(name, mode) }
func IsNotExist(err error) bool                 { return os.IsNotExist(err) }
func IsExist(err error) bool                    { return os.IsExist(err) }
func IsPermission(err error) bool               { return os.IsPermission(err) }
func IsTimeout(err error) bool                  { return os.IsTimeout(err) }
func IsPathSeparator(c uint8) bool              { return c == '/' }
func Getpagesize() int                          { return 4096 }
func Getpid() int                               { return 4242 }
func Getenv(key string) string                  { return "" }
func LookupEnv(key string) (string, bool)       { return "", false }
func TempDir() string                           { return "/tmp" }
func Getwd() (string, error)                    { return "/", nil }
func Exit(code int)                             { panic("simos: os.Exit called by the system under test") }
func NewSyscallError(s string, err error) error { return os.NewSyscallError(s, err) }
func SameFile(a, b FileInfo) bool               { return a.Name() == b.Name() && a.Size() == b.Size() }

func ReadFile(name string) ([]byte, error) {
	f, err := Open(name)
	if err != nil {
		return nil, err
	}
	defer f.Close()
	fi, err := f.Stat()
	if err != nil {
		return nil, err
	}
	b := make([]byte, fi.Size())
	n, err := f.ReadAt(b, 0)
	if n == len(b) {
		err = nil
	}
	return b[:n], err
}

func WriteFile(name string, data []byte, perm FileMode) error {
	f, err := OpenFile(name, O_WRONLY|O_CREATE|O_TRUNC, perm)
	if err != nil {
		return err
	}
	_, err = f.Write(data)
	if err1 := f.Close(); err1 != nil && err == nil {
		err = err1
	}
	return err
}

func ReadDir(name string) ([]DirEntry, error) {
	fis, err := disk().ReadDir(name)
	if err != nil {
		return nil, err
	}
	out := make([]DirEntry, len(fis))
	for i, fi := range fis {
		out[i] = fs.FileInfoToDirEntry(fi)
	}
	return out, nil
}

var tmpN int

func MkdirTemp(dir, pattern string) (string, error) {
	if dir == "" {
		dir = "/tmp"
	}
	tmpN++
	p := dir + "/" + pattern + itoa(tmpN)
	return p, MkdirAll(p, 0700)
}

func CreateTemp(dir, pattern string) (*File, error) {
	if dir == "" {
		dir = "/tmp"
	}
	if err := MkdirAll(dir, 0700); err != nil {
		return nil, err
	}
	tmpN++
	return OpenFile(dir+"/"+pattern+itoa(tmpN), O_RDWR|O_CREATE|O_EXCL, 0600)
}

func itoa(n int) string {
	if n == 0 {
		return "0"
	}
	s := ""
	for n > 0 {
		s = string(rune('0'+n%10)) + s
		n /= 10
	}
	return s
}

// ---- File methods (nil-safe like *os.File)

func (f *File) cf() *core.File {
	if f == nil {
		return nil
	}
	return f.f
}

func (f *File) Name() string {
	if f == nil {
		panic("invalid memory address or nil pointer dereference (nil *os.File)")
	}
	return f.f.Name()
}
func (f *File) Read(b []byte) (int, error) {
	if f == nil {
		return 0, ErrInvalid
	}
	return f.f.Read(b)
}
func (f *File) ReadAt(b []byte, off int64) (int, error) {
	if f == nil {
		return 0, ErrInvalid
	}
	return f.f.ReadAt(b, off)
}
func (f *File) Write(b []byte) (int, error) {
	if f == nil {
		return 0, ErrInvalid
	}
	return f.f.Write(b)
}
func (f *File) WriteAt(b []byte, off int64) (int, error) {
	if f == nil {
		return 0, ErrInvalid
	}
	return f.f.WriteAt(b, off)
}
func (f *File) WriteString(s string) (int, error) {
	if f == nil {
		return 0, ErrInvalid
	}
	return f.f.WriteString(s)
}
func (f *File) Seek(offset int64, whence int) (int64, error) {
	if f == nil {
		return 0, ErrInvalid
	}
	return f.f.Seek(offset, whence)
}
func (f *File) Sync() error {
	if f == nil {
		return ErrInvalid
	}
	return f.f.Sync()
}
func (f *File) Truncate(size int64) error {
	if f == nil {
		return ErrInvalid
	}
	return f.f.Truncate(size)
}
func (f *File) Close() error {
	if f == nil {
		return ErrInvalid
	}
	return f.f.Close()
}
func (f *File) Stat() (FileInfo, error) {
	if f == nil {
		return nil, ErrInvalid
	}
	return f.f.Stat()
}
func (f *File) Chmod(m FileMode) error {
	if f == nil {
		return ErrInvalid
	}
	return f.f.Chmod(m)
}
func (f *File) Readdir(n int) ([]FileInfo, error) {
	if f == nil {
		return nil, ErrInvalid
	}
	return f.f.Readdir(n)
}
func (f *File) Readdirnames(n int) ([]string, error) {
	if f == nil {
		return nil, ErrInvalid
	}
	return f.f.Readdirnames(n)
}
func (f *File) ReadDir(n int) ([]DirEntry, error) {
	fis, err := f.Readdir(n)
	out := make([]DirEntry, len(fis))
	for i, fi := range fis {
		out[i] = fs.FileInfoToDirEntry(fi)
	}
	return out, err
}
func (f *File) Fd() uintptr { return ^uintptr(0) }

// Core exposes the simulator handle (used by the mmap shim).
func (f *File) Core() *core.File { return f.cf() }

var _ = syscall.EIO

// ---- rarely used functions, present so that a changed tree still compiles

func UserHomeDir() (string, error)                  { return "/home/sim", nil }
func UserCacheDir() (string, error)                 { return "/home/sim/.cache", nil }
func UserConfigDir() (string, error)                { return "/home/sim/.config", nil }
func Hostname() (string, error)                     { return "simhost", nil }
func Getuid() int                                   { return 1000 }
func Geteuid() int                                  { return 1000 }
func Getgid() int                                   { return 1000 }
func Getppid() int                                  { return 1 }
func Environ() []string                             { return nil }
func Setenv(key, value string) error                { return nil }
func Unsetenv(key string) error                     { return nil }
func Expand(s string, m func(string) string) string { return os.Expand(s, m) }
func ExpandEnv(s string) string                     { return os.Expand(s, func(string) string { return "" }) }
func Executable() (string, error)                   { return "/bin/sim", nil }
func Chown(name string, uid, gid int) error         { _, err := Stat(name); return err }
func Lchown(name string, uid, gid int) error        { _, err := Stat(name); return err }
func Chdir(dir string) error                        { _, err := Stat(dir); return err }
func Symlink(oldname, newname string) error {
	return &LinkError{Op: "symlink", Old: oldname, New: newname, Err: syscall.EPERM}
}
func Link(oldname, newname string) error {
	return &LinkError{Op: "link", Old: oldname, New: newname, Err: syscall.EPERM}
}
func Readlink(name string) (string, error) {
	return "", &PathError{Op: "readlink", Path: name, Err: syscall.EINVAL}
}

func (f *File) Chown(uid, gid int) error             { return nil }
func (f *File) SetDeadline(t interface{}) error      { return nil }
func (f *File) SetReadDeadline(t interface{}) error  { return nil }
func (f *File) SetWriteDeadline(t interface{}) error { return nil }
