// Package prog defines programs as data: a configuration and a list of steps,
// each step a transaction (list of API operations) or a lifecycle action.  A
// program plus a fault plan plus a schedule is one exactly repeatable run, and
// is what replay files hold.
package prog

import (
	"encoding/json"
	"fmt"
	"strings"

	"verifsim/core"
)

// Config is the nutsdb configuration and simulator knobs of one run.
type Config struct {
	IdxMode  int    `json:"idx"`  // 0 key+value RAM, 1 key-only RAM, 2 sparse B+ tree
	RWMode   int    `json:"rw"`   // 0 FileIO, 1 MMap
	LoadMode int    `json:"load"` // StartFileLoadingMode
	Sync     bool   `json:"sync"`
	SegSize  int64  `json:"seg"`
	Dir      string `json:"dir,omitempty"`
	RandSkip int    `json:"randskip,omitempty"` // math/rand draws consumed before the run (varies skip-list layouts)
	Tick     int64  `json:"tick,omitempty"`     // ns added per clock reading (0 = frozen between steps)
}

// Op is one API call.
type Op struct {
	K    string   `json:"k"`
	B    string   `json:"b,omitempty"`
	Key  string   `json:"key,omitempty"`
	Val  string   `json:"val,omitempty"`
	B2   string   `json:"b2,omitempty"`
	Key2 string   `json:"key2,omitempty"`
	Vals []string `json:"vals,omitempty"`
	TTL  uint32   `json:"ttl,omitempty"`
	TS   int64    `json:"ts,omitempty"` // putts: timestamp relative to the simulated now (seconds)
	I    int      `json:"i,omitempty"`
	J    int      `json:"j,omitempty"`
	F    float64  `json:"f,omitempty"`
	F2   float64  `json:"f2,omitempty"`
	Lim  int      `json:"lim,omitempty"`
	ExS  bool     `json:"exs,omitempty"`
	ExE  bool     `json:"exe,omitempty"`
	NoOp bool     `json:"noopt,omitempty"` // pass nil options
	Re   string   `json:"re,omitempty"`
	Big  int      `json:"big,omitempty"`  // pad the value to this many bytes (oversized entries)
	Zero bool     `json:"zero,omitempty"` // pad with zero bytes instead of 'x' (long runs of zeros inside a value)
	// SF is a "special float" selector for C20: 1 NaN, 2 +Inf, 3 -Inf (applies to F), same +10 for F2
	SF int `json:"sf,omitempty"`
}

func (o Op) String() string {
	var sb strings.Builder
	sb.WriteString(o.K)
	sb.WriteString("(")
	parts := []string{}
	add := func(s string) { parts = append(parts, s) }
	if o.B != "" || true {
		add(fmt.Sprintf("%q", o.B))
	}
	if o.Key != "" {
		add("k=" + fmt.Sprintf("%q", o.Key))
	}
	if o.B2 != "" {
		add("b2=" + fmt.Sprintf("%q", o.B2))
	}
	if o.Key2 != "" {
		add("k2=" + fmt.Sprintf("%q", o.Key2))
	}
	if o.Val != "" {
		add("v=" + fmt.Sprintf("%q", o.Val))
	}
	if len(o.Vals) > 0 {
		add(fmt.Sprintf("vals=%q", o.Vals))
	}
	if o.TTL != 0 {
		add(fmt.Sprintf("ttl=%d", o.TTL))
	}
	if o.TS != 0 {
		add(fmt.Sprintf("ts=%+d", o.TS))
	}
	if o.I != 0 || o.J != 0 {
		add(fmt.Sprintf("i=%d,j=%d", o.I, o.J))
	}
	if o.F != 0 || o.F2 != 0 {
		add(fmt.Sprintf("f=%g,f2=%g", o.F, o.F2))
	}
	if o.Lim != 0 || o.ExS || o.ExE {
		add(fmt.Sprintf("lim=%d,exs=%v,exe=%v", o.Lim, o.ExS, o.ExE))
	}
	if o.Re != "" {
		add("re=" + fmt.Sprintf("%q", o.Re))
	}
	if o.Big != 0 {
		add(fmt.Sprintf("big=%d", o.Big))
	}
	if o.Zero {
		add("zero-padded")
	}
	if o.SF != 0 {
		add(fmt.Sprintf("sf=%d", o.SF))
	}
	sb.WriteString(strings.Join(parts, ","))
	sb.WriteString(")")
	return sb.String()
}

// Step kinds.
const (
	STx      = "tx"      // write transaction (db.Update)
	SView    = "view"    // read-only transaction (db.View)
	SReopen  = "reopen"  // Close + Open with the same options
	SMerge   = "merge"   // db.Merge()
	SBackup  = "backup"  // db.Backup(Dir)
	SAdvance = "advance" // move the simulated clock by D nanoseconds
	SRestart = "restart" // dirty restart: discard the DB object, keep a crash image as the disk, reopen
	SClose   = "close"
	SOpen    = "open"
)

// Step is one program step.
type Step struct {
	ID   int    `json:"id"`
	K    string `json:"k"`
	Ops  []Op   `json:"ops,omitempty"`
	End  string `json:"end,omitempty"` // tx: "" commit | "rollback" | "fnerr"
	D    int64  `json:"d,omitempty"`   // advance: nanoseconds
	Dir  string `json:"dir,omitempty"`
	Task int    `json:"task,omitempty"` // scheduled programs: which task runs the step
	DB   int    `json:"db,omitempty"`   // scheduled programs: which database
	Mode int    `json:"mode,omitempty"` // open with another index mode (C22)
	Seg  int64  `json:"seg,omitempty"`  // reopen: open with this SegmentSize from now on (C19)
	// After lists calls made on the transaction handle after the transaction
	// has finished (committed, rolled back or failed): each must return an
	// error and change nothing (C12).
	After []Op `json:"after,omitempty"`
}

func (s Step) String() string {
	switch s.K {
	case STx, SView:
		who := ""
		if s.Task != 0 || s.DB != 0 {
			who = fmt.Sprintf(" task=%d db=%d", s.Task, s.DB)
		}
		ops := make([]string, len(s.Ops))
		for i, o := range s.Ops {
			ops[i] = o.String()
		}
		e := ""
		if s.End != "" {
			e = " end=" + s.End
		}
		return fmt.Sprintf("#%d%s %s[%s]%s", s.ID, who, s.K, strings.Join(ops, "; "), e)
	case SAdvance:
		return fmt.Sprintf("#%d advance %dns", s.ID, s.D)
	case SReopen:
		if s.Seg > 0 {
			return fmt.Sprintf("#%d reopen with SegmentSize=%d", s.ID, s.Seg)
		}
	}
	return fmt.Sprintf("#%d %s", s.ID, s.K)
}

// Program is one run as data.
type Program struct {
	Cfg      Config       `json:"cfg"`
	Steps    []Step       `json:"steps"`
	Faults   []core.Fault `json:"faults,omitempty"`
	Schedule []int        `json:"schedule,omitempty"`
	Tasks    int          `json:"tasks,omitempty"`
	DBs      int          `json:"dbs,omitempty"`
}

func (p *Program) Clone() *Program {
	b, _ := json.Marshal(p)
	var q Program
	json.Unmarshal(b, &q)
	return &q
}

func (p *Program) String() string {
	var sb strings.Builder
	fmt.Fprintf(&sb, "cfg=%+v\n", p.Cfg)
	for _, s := range p.Steps {
		sb.WriteString("  " + s.String() + "\n")
	}
	for _, f := range p.Faults {
		sb.WriteString("  fault " + f.String() + "\n")
	}
	if len(p.Schedule) > 0 {
		// run-length encoded: task x number of consecutive scheduling decisions
		sb.WriteString("  schedule")
		for i := 0; i < len(p.Schedule); {
			j := i
			for j < len(p.Schedule) && p.Schedule[j] == p.Schedule[i] {
				j++
			}
			fmt.Fprintf(&sb, " t%dx%d", p.Schedule[i], j-i)
			i = j
		}
		sb.WriteString("\n")
	}
	return sb.String()
}

// Renumber gives steps ids 0..n-1 (only for freshly generated programs).
func (p *Program) Renumber() {
	for i := range p.Steps {
		p.Steps[i].ID = i
	}
}

// Res is the canonical result of one API call: error-or-value.  Error
// identity is not part of any property, so only its presence is compared.
type Res struct {
	Err   bool   `json:"err,omitempty"`
	V     string `json:"v,omitempty"`
	Msg   string `json:"msg,omitempty"`   // error text (diagnostic only)
	Panic string `json:"panic,omitempty"` // recovered panic, if any
}

func (r Res) String() string {
	if r.Panic != "" {
		return "PANIC(" + r.Panic + ")"
	}
	if r.Err {
		return "ERR(" + r.Msg + ")"
	}
	return r.V
}

// IsRead reports whether the op kind never writes.
func IsRead(k string) bool {
	switch k {
	case "adv", // the clock moves while the transaction is open
		"get", "getall", "range", "prefix", "psearch",
		"lpeek", "rpeek", "lsize", "lrange",
		"sismember", "saremembers", "smembers", "scard", "shaskey", "sdiff1", "sdiff2", "sunion1", "sunion2",
		"zrangebyscore", "zrangebyrank", "zrank", "zrevrank", "zscore", "zgetbykey", "zcount", "zcard", "zmembers", "zpeekmin", "zpeekmax":
		return true
	}
	return false
}

// DS returns the data structure an op kind belongs to: "kv", "list", "set", "zset".
func DS(k string) string {
	switch k {
	case "put", "putts", "del", "get", "getall", "range", "prefix", "psearch":
		return "kv"
	}
	if k == "adv" {
		return "?"
	}
	switch k[0] {
	case 'l', 'r':
		return "list"
	case 's':
		return "set"
	case 'z':
		return "zset"
	}
	return "?"
}

// Blind reports whether a write's call-time result and validity do not depend
// on the current state (so that transaction semantics cannot show through it).
func Blind(k string) bool {
	switch k {
	case "put", "putts", "del", "rpush", "lpush", "sadd", "srem", "zadd":
		return true
	}
	return false
}
