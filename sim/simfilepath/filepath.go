// Package simfilepath replaces "path/filepath" in the scratch copy of the
// system under test: the pure path functions are the real ones, the functions
// that touch the file system (Walk, WalkDir, Glob, Abs, EvalSymlinks) run on
// the simulated disk.
package simfilepath

import (
	"io/fs"
	"path/filepath"
	"sort"

	os "verifsim/simos"
)

const (
	Separator     = filepath.Separator
	ListSeparator = filepath.ListSeparator
)

var (
	ErrBadPattern = filepath.ErrBadPattern
	SkipDir       = filepath.SkipDir
	SkipAll       = filepath.SkipAll
)

type WalkFunc = filepath.WalkFunc

func Base(p string) string                          { return filepath.Base(p) }
func Clean(p string) string                         { return filepath.Clean(p) }
func Dir(p string) string                           { return filepath.Dir(p) }
func Ext(p string) string                           { return filepath.Ext(p) }
func FromSlash(p string) string                     { return filepath.FromSlash(p) }
func ToSlash(p string) string                       { return filepath.ToSlash(p) }
func IsAbs(p string) bool                           { return filepath.IsAbs(p) }
func IsLocal(p string) bool                         { return filepath.IsLocal(p) }
func Join(elem ...string) string                    { return filepath.Join(elem...) }
func Match(pattern, name string) (bool, error)      { return filepath.Match(pattern, name) }
func Rel(basepath, targpath string) (string, error) { return filepath.Rel(basepath, targpath) }
func Split(p string) (string, string)               { return filepath.Split(p) }
func SplitList(p string) []string                   { return filepath.SplitList(p) }
func VolumeName(p string) string                    { return filepath.VolumeName(p) }
func HasPrefix(p, prefix string) bool               { return filepath.HasPrefix(p, prefix) }

func Abs(p string) (string, error) {
	if filepath.IsAbs(p) {
		return filepath.Clean(p), nil
	}
	return filepath.Join("/", p), nil
}

func EvalSymlinks(p string) (string, error) {
	if _, err := os.Lstat(p); err != nil {
		return "", err
	}
	return filepath.Clean(p), nil
}

func walk(p string, info os.FileInfo, fn WalkFunc) error {
	if !info.IsDir() {
		return fn(p, info, nil)
	}
	fis, err := readDirSorted(p)
	err1 := fn(p, info, err)
	if err != nil || err1 != nil {
		return err1
	}
	for _, fi := range fis {
		name := filepath.Join(p, fi.Name())
		if err := walk(name, fi, fn); err != nil {
			if !fi.IsDir() || err != SkipDir {
				return err
			}
		}
	}
	return nil
}

func readDirSorted(dir string) ([]os.FileInfo, error) {
	f, err := os.Open(dir)
	if err != nil {
		return nil, err
	}
	fis, err := f.Readdir(-1)
	f.Close()
	if err != nil {
		return nil, err
	}
	sort.Slice(fis, func(i, j int) bool { return fis[i].Name() < fis[j].Name() })
	return fis, nil
}

func Walk(root string, fn WalkFunc) error {
	info, err := os.Lstat(root)
	if err != nil {
		err = fn(root, nil, err)
	} else {
		err = walk(root, info, fn)
	}
	if err == SkipDir || err == SkipAll {
		return nil
	}
	return err
}

func WalkDir(root string, fn fs.WalkDirFunc) error {
	return Walk(root, func(p string, info os.FileInfo, err error) error {
		if info == nil {
			return fn(p, nil, err)
		}
		return fn(p, fs.FileInfoToDirEntry(info), err)
	})
}

// Glob supports patterns whose directory part has no meta characters.
func Glob(pattern string) ([]string, error) {
	if _, err := filepath.Match(pattern, ""); err != nil {
		return nil, err
	}
	dir, file := filepath.Split(pattern)
	if dir == "" {
		dir = "."
	}
	fis, err := readDirSorted(filepath.Clean(dir))
	if err != nil {
		return nil, nil
	}
	var out []string
	for _, fi := range fis {
		if ok, _ := filepath.Match(file, fi.Name()); ok {
			out = append(out, filepath.Join(dir, fi.Name()))
		}
	}
	return out, nil
}
