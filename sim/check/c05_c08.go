package check

import (
	"verifsim/core"
	"verifsim/gen"
	"verifsim/prog"
	"verifsim/run"
)

var ramSegs = []int64{128, 192, 256, 512, 1024}

func dsSpec(id, ds, rule string, extra func(p *gen.MixParams)) *Spec {
	return &Spec{
		ID: id, Level: "exploration", Rule: rule,
		Gen: func(r *core.Rng, tier string) *prog.Program {
			p := gen.MixParams{Modes: []int{0}, Segs: ramSegs, DS: []string{ds}, MinTx: 3, MaxTx: 25, MaxOps: 4, Views: true, Reopen: 0.15, BadEnds: 0.05, NoEmptyMember: true}
			if tier == "thorough" {
				p.MaxTx = 60
			}
			if extra != nil {
				extra(&p)
			}
			return gen.Mix(r, p)
		},
		Exec: func(seed uint64, p *prog.Program) *RunResult {
			_, res := seqExec(seed, p, run.Options{Deferred: true, ObserveEvery: true})
			res.Nontrivial = len(res.StateHash) >= 4
			return res
		},
		Classes: classes("op", "observe"),
		Assume: []string{"transactions do not read or pop a structure they already modified (that is C13's business)",
			"exhaustive bounded enumeration on the bare exported ds types is not a simulation target (DESIGN §7)"},
	}
}

func init() {
	Register(dsSpec("C05", "list",
		"seeded list histories through the transaction API (RPush/LPush/LPop/RPop/LRem/LSet/LTrim + every read, indexes -8..7, values incl. empty and '|'-containing, keys incl. empty and '|'-containing), single- and multi-op transactions, clean reopens; every call and a full observation after every step compared with a Redis-style list model (tolerances of DESIGN §3.5); non-trivial = at least 3 committed write transactions",
		nil))
	Register(dsSpec("C06", "set",
		"seeded set histories (SAdd/SRem/SPop/SMoveByOneBucket/SMoveByTwoBuckets + every read; one and two buckets; members incl. empty and repeated), clean reopens; SPop may return any member and the model follows the choice; every call and a full observation after every step compared with a set model; non-trivial = at least 3 committed write transactions",
		nil))
	Register(dsSpec("C07", "zset",
		"seeded sorted-set histories (ZAdd/ZRem/ZRemRangeByRank/ZPopMax/ZPopMin + every query with bounds from below the minimum to above the maximum in both orders, exclusive flags, limits; member keys incl. the empty key; scores with many ties; skip-list levels from the seeded math/rand), clean reopens; every call and a full observation compared with a model ordered by (score, key); non-trivial = at least 3 committed write transactions",
		nil))

	// ---- C08: clean reopen preserves every observable result (model-independent)
	Register(&Spec{
		ID: "C08", Level: "exploration",
		Rule: "seeded mixed histories (KV in all three index modes; lists, sets, sorted sets in key+value mode), multi-op transactions, failed/rolled-back transactions, clock moves; at every reopen step the full observation just before Close is compared with the one just after Open at the same simulated instant (no model involved); non-trivial = at least one reopen after at least 3 committed transactions",
		Gen: func(r *core.Rng, tier string) *prog.Program {
			p := gen.MixParams{Modes: []int{0}, Segs: ramSegs, DS: []string{"kv", "list", "set", "zset"}, MinTx: 3, MaxTx: 20, MaxOps: 4, Reopen: 0.3, BadEnds: 0.1, BigP: 0.05, Advance: true, KVTTL: true, NoEmptyMember: true}
			if r.Bool(0.3) {
				p.DS = []string{"kv"}
				p.Modes = []int{1, 2}
				p.Segs = []int64{128, 192, 256, 512}
			}
			if tier == "thorough" {
				p.MaxTx = 50
			}
			pg := gen.Mix(r, p)
			pg.Steps = append(pg.Steps, prog.Step{K: prog.SReopen})
			pg.Renumber()
			return pg
		},
		Exec: func(seed uint64, p *prog.Program) *RunResult {
			r, res := seqExec(seed, p, run.Options{Deferred: true, CompareReopen: true})
			res.Nontrivial = len(res.StateHash) >= 4 && r.Opened
			return res
		},
		Classes: classes("reopen-diff"),
		Assume:  []string{"the clock is held across Close/Open (advanced 1 ms before the first observation) so TTL cannot explain a difference"},
	})

	// ---- C13: write transactions are serializable (strict model; deviant switch for the known finding)
	Register(&Spec{
		ID: "C13", Level: "exploration",
		Rule: "seeded multi-op write transactions that read, pop or modify structures they have already modified (Put;Get, RPush;LPop, LPop;LPop, SAdd;SPop, ZAdd;ZPopMax, Delete;PrefixScan ...); strict oracle: every in-transaction result and the state left equal running the operations one after another on the state at the start; " +
			"a run whose strict check fails is re-judged with the single deviant switch 'calls are evaluated on the state at transaction start and effects applied in order at commit' (the recorded known finding): only if that model explains every result and the final state is the run attributed to it, anything else is a violation; non-trivial = some transaction had a read/pop after a write of the same structure",
		Gen: func(r *core.Rng, tier string) *prog.Program {
			p := gen.MixParams{Modes: []int{0}, Segs: []int64{512, 1024}, DS: []string{"kv", "list", "set", "zset"}, MinTx: 2, MaxTx: 10, MaxOps: 6, SelfRead: true, NoEmptyMember: true}
			return gen.Mix(r, p)
		},
		Exec: func(seed uint64, p *prog.Program) *RunResult {
			_, strict := seqExec(seed, p, run.Options{Deferred: false, ObserveEvery: true})
			strict.Nontrivial = true
			bad := false
			for _, v := range strict.Viol {
				if v.Class == "op" || v.Class == "observe" {
					bad = true
				}
			}
			if !bad {
				return strict
			}
			_, dev := seqExec(seed, p, run.Options{Deferred: true, ObserveEvery: true})
			devBad := false
			for _, v := range dev.Viol {
				if v.Class == "op" || v.Class == "observe" {
					devBad = true
				}
			}
			if devBad {
				// neither model explains the run: report what the deviant model could not explain
				dev.Probes["c13-unexplained-by-both-models"]++
				return dev
			}
			// explained exactly by the recorded deviant semantics
			for i := range strict.Viol {
				if strict.Viol[i].Class == "op" || strict.Viol[i].Class == "observe" {
					strict.Viol[i].Sig = "strict-" + strict.Viol[i].Sig
					strict.Viol[i].Class = "strict-" + strict.Viol[i].Class
				}
			}
			strict.Probes["c13-explained-by-deviant-model"]++
			return strict
		},
		Classes: classes("op", "observe"),
	})
}
