package check

import (
	"verifsim/core"
	"verifsim/gen"
	"verifsim/prog"
	"verifsim/run"
)

func init() {
	Register(&Spec{
		ID:    "C01",
		Level: "exploration",
		Rule: "seeded KV histories (single/multi-op write transactions, TTL/timestamp on both sides of expiry, deletes, clock moves, 64-512 B segments) in both RAM index modes x FileIO/MMap x loading modes; " +
			"after every step every Get/GetAll/RangeScan/PrefixScan over the run's universe is compared with the ordered-map model at the simulated instant; " +
			"a run is non-trivial when it rotated the segment file at least twice and its event-log hash is new",
		Gen: func(r *core.Rng, tier string) *prog.Program {
			p := gen.KVParams{Mega: 0.003,
				Modes: []int{0, 1}, Segs: []int64{64, 96, 100, 128, 144, 192, 256, 512},
				MinTx: 4, MaxTx: 30, MaxOps: 4, Buckets: 4,
				TTL: r.Bool(0.7), Timestamps: r.Bool(0.5), Deletes: r.Bool(0.8), Advance: r.Bool(0.8),
				Views: true, EmptyKey: r.Bool(0.3), NoLimitOnly: true, PSearch: true, ManyKeys: 0.3, Backward: r.Bool(0.3),
			}
			if tier == "thorough" {
				p.MaxTx = 60
			}
			return gen.KV(r, p)
		},
		Exec: func(seed uint64, p *prog.Program) *RunResult {
			_, res := seqExec(seed, p, run.Options{Deferred: true, ObserveEvery: true})
			res.Nontrivial = rotations(res) >= 3
			return res
		},
		Classes: classes("op", "observe"),
		Assume:  []string{"timestamps within +-61 s of the simulated now (timestamp+ttl never overflows)", "the clock also steps backwards in a third of the runs (wall-clock adjustments); C01 has no failed transactions, so transaction-id reuse after a backward step cannot matter here"},
	})
}
