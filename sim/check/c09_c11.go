package check

import (
	"os"
	"verifsim/core"
	"verifsim/gen"
	"verifsim/prog"
	"verifsim/run"
)

func snapPolicy(tier string, crash, torn, powerloss bool) func(r *core.Rng) *core.SnapPolicy {
	return func(r *core.Rng) *core.SnapPolicy {
		sp := &core.SnapPolicy{Crash: crash, Torn: torn, PowerLoss: powerloss, Rng: r, P: 0.2, TornMax: 3, PLVariants: 3, MaxSnaps: 400}
		if tier == "thorough" {
			sp.P, sp.TornMax, sp.PLVariants, sp.MaxSnaps = 1, 10, 5, 5000
		}
		return sp
	}
}

func deepPolicy(crash, torn, powerloss bool) func(r *core.Rng) *core.SnapPolicy {
	return func(r *core.Rng) *core.SnapPolicy {
		return &core.SnapPolicy{Crash: crash, Torn: torn, PowerLoss: powerloss, Rng: r, P: 1, TornMax: -1, PLVariants: 6, MaxSnaps: 20000}
	}
}

func crashKVParams(r *core.Rng, tier string, modes []int) gen.KVParams {
	p := gen.KVParams{
		Modes: modes, Segs: []int64{64, 96, 100, 128, 144, 192, 256, 512},
		MinTx: 3, MaxTx: 14, MaxOps: 4, Buckets: 2,
		TTL: r.Bool(0.3), Timestamps: false, Deletes: r.Bool(0.8), Advance: r.Bool(0.4),
		BigP: 0.15, BadEnds: 0.1, Restart: 0.05,
	}
	if tier == "thorough" {
		p.MaxTx = 30
	}
	return p
}

var tierOf = map[uint64]string{}

// onlyConc restricts C10 / C16 to their scheduled sub-batch (experiments only).
var onlyConc = os.Getenv("NUTSIM_ONLY_CONC") != ""

// onlySparse restricts C11 to its sparse-mode sub-batch (experiments only).
var onlySparse = os.Getenv("NUTSIM_ONLY_SPARSE") != ""

func init() {
	// ---- C10: process crash
	mixCrash := func(r *core.Rng, tier string) *prog.Program {
		maxTx := 12
		if tier == "thorough" {
			maxTx = 30
		}
		p := gen.MixParams{Modes: []int{0}, Segs: []int64{128, 192, 256, 512}, DS: []string{"kv", "list", "set", "zset"},
			MinTx: 3, MaxTx: maxTx, MaxOps: 4, BadEnds: 0.1, BigP: 0.1, Restart: 0.05, NoEmptyMember: true, Advance: r.Bool(0.3)}
		return gen.Mix(r, p)
	}
	c10gen := func(r *core.Rng, tier string) *prog.Program {
		if r.Bool(0.15) || onlyConc {
			// the process dies while several goroutines are inside transactions
			cp := gen.ConcParams{Modes: []int{0, 1}, Segs: []int64{128, 192, 256, 512}, MinTasks: 2, MaxTasks: 5, MaxDBs: 1, MaxSteps: 4, DS: []string{"kv", "list", "set", "zset"}}
			return gen.Conc(r, cp)
		}
		if r.Bool(0.4) {
			return mixCrash(r, tier)
		}
		p := gen.KV(r, crashKVParams(r, tier, []int{0, 1}))
		return p
	}
	c10 := func(tier string) func(uint64, *prog.Program) *RunResult {
		return func(seed uint64, p *prog.Program) *RunResult {
			if p.Tasks > 0 {
				return concCrashExec(seed, p, snapPolicy(tier, true, true, false), false, 0.3)
			}
			res := crashExec(seed, p, snapPolicy(tier, true, true, false), judgeMode{Recovery: true, ContinueP: 0.3}, run.Options{Deferred: true})
			res.Nontrivial = res.Images >= 3 && res.Faults["torn"] > 0
			return res
		}
	}
	deep10 := func(seed uint64, p *prog.Program) *RunResult {
		if p.Tasks > 0 {
			return concCrashExec(seed, p, deepPolicy(true, true, false), false, 0.3)
		}
		return crashExec(seed, p, deepPolicy(true, true, false), judgeMode{Recovery: true, ContinueP: 0.3}, run.Options{Deferred: true})
	}
	Register(&Spec{
		ID: "C10", Level: "fault_enumeration",
		Rule: "seeded histories (KV in both RAM index modes; lists, sets and sorted sets in key+value mode; multi-op transactions, failed commits with an oversized entry at a non-first position, rollbacks, frozen clock so that transactions share a millisecond, dirty restarts) x crash images taken at a seeded sample (thorough: all) of the file-mutation points, plus torn prefixes of every sampled write at record-field boundaries; each image is mounted in a fresh world, opened and fully observed; " +
			"required: Open succeeds and the observation equals the model state after the acknowledged transactions, or that plus the in-flight transaction if its commit went on to succeed; one run in seven is a scheduled program (2-5 tasks of View/Update transactions under the seeded scheduler): an image taken at event e must show the state after k write transactions in lock-grant order, with k between the number acknowledged at e and the number granted the lock at e; non-trivial = at least 3 distinct images of which at least one torn",
		Gen: c10gen, Exec: c10("quick"), Deep: deep10,
		Classes: classes("recovery", "open-failed", "open-panic"),
		Assume:  []string{"process crash: the kernel page cache survives (all completed writes visible), a write in flight is applied as a prefix", "a restart takes at least 1 ms of simulated time"},
	})
	Specs["C10"].ExecTier = c10

	// ---- C11: power loss with SyncEnable
	c11gen := func(r *core.Rng, tier string) *prog.Program {
		if r.Bool(0.15) || onlySparse {
			// sparse index mode: power fails between transactions only (its
			// commits are not crash-atomic: known finding K3)
			kp := gen.KVParams{Modes: []int{2}, Segs: []int64{192, 256, 400, 512}, MinTx: 4, MaxTx: 16, MaxOps: 3, Buckets: 1,
				Deletes: true, ManyKeys: 0.3, Reopen: 0.1, BadEnds: 0.1}
			p := gen.KV(r, kp)
			p.Cfg.Sync = true
			return p
		}
		if r.Bool(0.12) || onlyConc {
			// power fails while several goroutines are inside transactions
			cp := gen.ConcParams{Modes: []int{0, 1}, Segs: []int64{128, 192, 256, 512}, MinTasks: 2, MaxTasks: 5, MaxDBs: 1, MaxSteps: 4, DS: []string{"kv", "list", "set", "zset"}}
			p := gen.Conc(r, cp)
			p.Cfg.Sync = true
			return p
		}
		if r.Bool(0.3) {
			p := mixCrash(r, tier)
			p.Cfg.Sync = true
			return p
		}
		kp := crashKVParams(r, tier, []int{0, 1})
		if r.Bool(0.25) {
			// separate sub-batch with Merge: the only place where removals (which
			// power loss may undo) happen
			kp.Merge = 0.2
			kp.Segs = []int64{96, 128, 144, 192}
		}
		p := gen.KV(r, kp)
		p.Cfg.Sync = true
		return p
	}
	c11 := func(tier string) func(uint64, *prog.Program) *RunResult {
		return func(seed uint64, p *prog.Program) *RunResult {
			p.Cfg.Sync = true // the premise of C11; shrinking must not drop it
			if p.Tasks > 0 {
				return concCrashExec(seed, p, snapPolicy(tier, false, false, true), false, 0.3)
			}
			if p.Cfg.IdxMode == 2 {
				res := crashExec(seed, p, nil, judgeMode{Recovery: true, ContinueP: 0.3}, run.Options{Deferred: true, BoundaryPL: 3})
				res.Nontrivial = res.Images >= 3
				return res
			}
			res := crashExec(seed, p, snapPolicy(tier, false, false, true), judgeMode{Recovery: true, ContinueP: 0.3}, run.Options{Deferred: true})
			res.Nontrivial = res.Images >= 3
			return res
		}
	}
	deep11 := func(seed uint64, p *prog.Program) *RunResult {
		p.Cfg.Sync = true
		if p.Tasks > 0 {
			return concCrashExec(seed, p, deepPolicy(false, false, true), false, 0.3)
		}
		if p.Cfg.IdxMode == 2 {
			return crashExec(seed, p, nil, judgeMode{Recovery: true, ContinueP: 0.3}, run.Options{Deferred: true, BoundaryPL: 6})
		}
		return crashExec(seed, p, deepPolicy(false, false, true), judgeMode{Recovery: true, ContinueP: 0.3}, run.Options{Deferred: true})
	}
	Register(&Spec{
		ID: "C11", Level: "fault_enumeration",
		Rule: "as C10 with SyncEnable=true and power-loss images: every file reverts to its content at its last sync plus a seeded choice among its unsynced operations (none / all / an order-prefix with the last one torn / a subset), never-synced creations may vanish, unsynced removals may be undone; " +
			"required: Open succeeds and observation is S or S+T; one run in seven is a sparse-index-mode history with power-loss images of the quiescent state after every transaction, Merge and reopen (nothing in flight: everything acknowledged must survive); one run in eight is a scheduled multi-goroutine program judged like C10's (a prefix of the lock-grant order between 'acknowledged' and 'granted'); non-trivial = at least 3 distinct images",
		Gen: c11gen, Exec: c11("quick"), Deep: deep11,
		Classes: classes("recovery", "open-failed", "open-panic"),
		Assume:  []string{"a sync of a file also makes its directory entry durable (granted by C11)", "directories are durable once created", "fsync/msync make the whole file content durable"},
	})
	Specs["C11"].ExecTier = c11
}
