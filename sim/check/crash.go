package check

import (
	"fmt"
	"regexp"
	"strings"
	"time"

	"verifsim/core"
	"verifsim/model"
	"verifsim/prog"
	"verifsim/run"
	"verifsim/simmmap"
)

var digits = regexp.MustCompile(`[0-9]+`)

// errClass normalises an error text into a stable class (numbers removed).
func errClass(s string) string {
	s = digits.ReplaceAllString(s, "N")
	if len(s) > 80 {
		s = s[:80]
	}
	return strings.TrimSpace(s)
}

func hasSnapFaults(p *prog.Program) bool {
	for _, f := range p.Faults {
		if f.Kind == "crash" || f.Kind == "torn" || f.Kind == "powerloss" {
			return true
		}
	}
	return false
}

// StripSnapFaults is exported for debugging.
func StripSnapFaults(p *prog.Program) *prog.Program { return stripSnapFaults(p) }

func stripSnapFaults(p *prog.Program) *prog.Program {
	q := p.Clone()
	q.Faults = nil
	for _, f := range p.Faults {
		if f.Kind == "crash" || f.Kind == "torn" || f.Kind == "powerloss" {
			continue
		}
		q.Faults = append(q.Faults, f)
	}
	return q
}

// judgeMode selects what is demanded of a mounted image.
type judgeMode struct {
	Recovery bool  // observation must equal S or S+T
	OtherIdx []int // additionally open with these index modes (C22)
}

// judgeSnapshots mounts every image in a fresh world, opens it with the
// creating options and judges it.  It returns the violations, the number of
// images judged and the explicit fault reproducing the first failing image.
func judgeSnapshots(r *run.Runner, jm judgeMode) (viol []run.Violation, n int, witness map[string]core.Fault) {
	witness = map[string]core.Fault{}
	main := core.W
	defer core.Use(main)
	perSig := map[string]int{}
	for _, sn := range r.W.Faults.Snaps {
		n++
		for _, v := range judgeImage(r, sn, jm) {
			if perSig[v.Sig] >= 2 {
				continue
			}
			perSig[v.Sig]++
			if _, ok := witness[v.Sig]; !ok {
				witness[v.Sig] = sn.AsFault()
			}
			viol = append(viol, v)
		}
	}
	return
}

func judgeImage(r *run.Runner, sn *core.Snapshot, jm judgeMode) (viol []run.Violation) {
	w := core.NewWorld(core.Mix(r.W.Seed, sn.Digest))
	w.Clock.Tick = r.P.Cfg.Tick
	w.Clock.SetNS(sn.ClockNS + int64(time.Millisecond)) // a restart is not instantaneous
	w.Disk.Mount(sn.Image)
	core.Use(w)
	core.ResetSeqLocks()
	simmmap.Reset()
	where := fmt.Sprintf("%s image at step %d fmp %d (%s %s arg=%d, acked=%d inflight=%d, phase=%q)", sn.Kind, sn.StepID, sn.FMP, sn.Class, sn.Path, sn.Arg, sn.Acked, sn.InFlight, sn.Phase)
	add := func(class, sig, format string, args ...interface{}) {
		viol = append(viol, run.Violation{Class: class, StepID: sn.StepID, Op: -1, Msg: where + ": " + fmt.Sprintf(format, args...), Sig: class + "/" + sig})
	}
	w.Phase = "recovery"
	db, err, pan := run.OpenDB(r.DBOpt)
	if pan != "" {
		add("open-panic", "Open", "Open panicked: %s", pan)
		return
	}
	if err != nil {
		add("open-failed", errClass(err.Error()), "Open failed: %v", err)
		return
	}
	defer func() { run.Safe(func() { db.Close() }) }()
	if !jm.Recovery {
		return
	}
	rr := &run.Runner{W: w, P: r.P, DB: db, DBOpt: r.DBOpt, ObsOps: r.ObsOps}
	got, bad := rr.Observe()
	if bad != "" {
		add("recovery", "observe-failed", "observation after recovery failed: %s", bad)
		return
	}
	now := w.Clock.Unix()
	if sn.Acked >= len(r.StateAt) {
		return
	}
	s := r.StateAt[sn.Acked]
	errS := s.CheckObservation(r.ObsOps, got, now)
	if errS == nil {
		return
	}
	var t *model.State
	if sn.InFlight >= 0 {
		t = r.CommitState[sn.InFlight]
	}
	if t != nil {
		if errT := t.CheckObservation(r.ObsOps, got, now); errT == nil {
			core.Use(r.W)
			r.W.Stats.Probes["recovered-with-inflight-tx"]++
			core.Use(w)
			return
		} else {
			add("recovery", "mismatch", "recovered state is neither S (%v) nor S+T (%v)", errS, errT)
			return
		}
	}
	add("recovery", "mismatch", "recovered state differs from the acknowledged state: %v", errS)
	return
}

// crashExec runs p taking images per policy (or only the explicit snapshot
// faults of p, when it has any: replay mode) and judges them.
func crashExec(seed uint64, p *prog.Program, pol func(r *core.Rng) *core.SnapPolicy, jm judgeMode, opt run.Options) *RunResult {
	r := run.NewRunner(seed, p, opt)
	if !hasSnapFaults(p) && pol != nil {
		sp := pol(core.NewRng(seed).Derive("snap"))
		r.W.Faults.Policy = sp
	}
	r.Run()
	endSnap := !hasSnapFaults(p) && pol != nil
	for _, f := range p.Faults {
		if f.StepID == -2 {
			endSnap = true
		}
	}
	if endSnap && !r.Dead {
		r.W.BeginStep(-2)
		r.W.SnapNow("crash", 0)
		r.W.EndStep()
	}
	r.Finish()
	res := collect(r)
	vs, n, wit := judgeSnapshots(r, jm)
	res.Viol = append(res.Viol, vs...)
	res.Images = n
	res.Witness = wit
	return res
}
