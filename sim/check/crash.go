package check

import (
	"fmt"
	"regexp"
	"strings"
	"time"

	"github.com/xujiajun/nutsdb"

	"verifsim/core"
	"verifsim/model"
	"verifsim/prog"
	"verifsim/run"
	"verifsim/simmmap"
)

var digits = regexp.MustCompile(`[0-9]+`)

// errClass normalises an error text into a stable class (numbers removed).
func errClass(s string) string {
	s = digits.ReplaceAllString(s, "N")
	if len(s) > 80 {
		s = s[:80]
	}
	return strings.TrimSpace(s)
}

func hasSnapFaults(p *prog.Program) bool {
	for _, f := range p.Faults {
		if f.Kind == "crash" || f.Kind == "torn" || f.Kind == "powerloss" {
			return true
		}
	}
	return false
}

// StripSnapFaults is exported for debugging.
func StripSnapFaults(p *prog.Program) *prog.Program { return stripSnapFaults(p) }

func stripSnapFaults(p *prog.Program) *prog.Program {
	q := p.Clone()
	q.Faults = nil
	for _, f := range p.Faults {
		if f.Kind == "crash" || f.Kind == "torn" || f.Kind == "powerloss" {
			continue
		}
		q.Faults = append(q.Faults, f)
	}
	return q
}

// judgeMode selects what is demanded of a mounted image.
type judgeMode struct {
	Recovery  bool    // observation must equal S or S+T
	ContinueP float64 // share of images on which more is committed after recovery, followed by another Open
	OtherIdx  []int   // additionally open with these index modes (C22)
}

// judgeSnapshots mounts every image in a fresh world, opens it with the
// creating options and judges it.  It returns the violations, the number of
// images judged and the explicit fault reproducing the first failing image.
func judgeSnapshots(r *run.Runner, jm judgeMode) (viol []run.Violation, n int, witness map[string]core.Fault) {
	witness = map[string]core.Fault{}
	main := core.W
	defer core.Use(main)
	perSig := map[string]int{}
	for _, sn := range r.W.Faults.Snaps {
		n++
		for _, v := range judgeImage(r, sn, jm) {
			if perSig[v.Sig] >= 2 {
				continue
			}
			perSig[v.Sig]++
			if _, ok := witness[v.Sig]; !ok {
				witness[v.Sig] = sn.AsFault()
			}
			viol = append(viol, v)
		}
	}
	return
}

func judgeImage(r *run.Runner, sn *core.Snapshot, jm judgeMode) (viol []run.Violation) {
	w := core.NewWorld(core.Mix(r.W.Seed, sn.Digest))
	w.Clock.Tick = r.P.Cfg.Tick
	w.Clock.SetNS(sn.ClockNS + int64(time.Millisecond)) // a restart is not instantaneous
	w.Disk.Mount(sn.Image)
	core.Use(w)
	core.ResetSeqLocks()
	simmmap.Reset()
	where := fmt.Sprintf("%s image at step %d fmp %d (%s %s arg=%d, acked=%d inflight=%d, phase=%q)", sn.Kind, sn.StepID, sn.FMP, sn.Class, sn.Path, sn.Arg, sn.Acked, sn.InFlight, sn.Phase)
	add := func(class, sig, format string, args ...interface{}) {
		viol = append(viol, run.Violation{Class: class, StepID: sn.StepID, Op: -1, Msg: where + ": " + fmt.Sprintf(format, args...), Sig: class + "/" + sig})
	}
	w.Phase = "recovery"
	db, err, pan := run.OpenDB(r.DBOpt)
	if pan != "" {
		add("open-panic", "Open", "Open panicked: %s", pan)
		return
	}
	if err != nil {
		add("open-failed", errClass(err.Error()), "Open failed: %v", err)
		return
	}
	defer func() {
		if db != nil {
			run.Safe(func() { db.Close() })
		}
	}()
	defer func() {
		// recover -> continue -> recover again, on a seeded share of the images
		if len(viol) == 0 && jm.ContinueP > 0 && core.NewRng(sn.Digest).Bool(jm.ContinueP) {
			core.Use(w)
			db = continueAfterRecovery(db, r.DBOpt, r.P.Cfg.SegSize, add)
			core.Use(r.W)
			r.W.Stats.Probes["images-continued-and-reopened"]++
			core.Use(w)
		}
	}()
	if !jm.Recovery {
		return
	}
	rr := &run.Runner{W: w, P: r.P, DB: db, DBOpt: r.DBOpt, ObsOps: r.ObsOps}
	got, bad := rr.Observe()
	if bad != "" {
		add("recovery", "observe-failed", "observation after recovery failed: %s", bad)
		return
	}
	now := w.Clock.Unix()
	if sn.Acked >= len(r.StateAt) {
		return
	}
	s := r.StateAt[sn.Acked]
	errS := s.CheckObservation(r.ObsOps, got, now)
	if errS == nil {
		return
	}
	var t *model.State
	if sn.InFlight >= 0 {
		t = r.CommitState[sn.InFlight]
	}
	if t != nil {
		if errT := t.CheckObservation(r.ObsOps, got, now); errT == nil {
			core.Use(r.W)
			r.W.Stats.Probes["recovered-with-inflight-tx"]++
			core.Use(w)
			return
		} else {
			add("recovery", "mismatch", "recovered state is neither S (%v) nor S+T (%v)", errS, errT)
			return
		}
	}
	add("recovery", "mismatch", "recovered state differs from the acknowledged state: %v", errS)
	return
}

// continueAfterRecovery writes a few more transactions on a database that was
// just recovered from an image (sized so that the active segment rotates),
// closes it and opens it again: recovery must also hold for what is written on
// top of a recovered directory (a torn record that recovery stepped over must
// not make a later Open fail once its segment is sealed).
func continueAfterRecovery(db *nutsdb.DB, opt nutsdb.Options, seg int64, add func(class, sig, format string, args ...interface{})) *nutsdb.DB {
	n := int(seg/2) - 60
	if n < 1 {
		n = 1
	}
	if n > 200 {
		n = 200
	}
	val := []byte(strings.Repeat("c", n))
	keys := []string{"c1", "c2", "c3"}
	for _, k := range keys {
		var err error
		pan := run.Safe(func() {
			err = db.Update(func(tx *nutsdb.Tx) error { return tx.Put("zz-cont", []byte(k), val, 0) })
		})
		if pan != "" {
			add("open-panic", "continuation", "a commit after recovery panicked: %s", pan)
			return nil
		}
		if err != nil {
			add("recovery", "continuation-commit-failed", "a commit after recovery failed: %v", err)
			return db
		}
	}
	if pan := run.Safe(func() { db.Close() }); pan != "" {
		add("open-panic", "continuation", "Close after recovery panicked: %s", pan)
		return nil
	}
	core.W.Clock.Advance(time.Millisecond)
	db2, err, pan := run.OpenDB(opt)
	if pan != "" {
		add("open-panic", "Open", "second Open after recovery + more commits panicked: %s", pan)
		return nil
	}
	if err != nil {
		add("open-failed", "second-open: "+errClass(err.Error()), "second Open (after recovery and %d more commits) failed: %v", len(keys), err)
		return nil
	}
	for _, k := range keys {
		var e *nutsdb.Entry
		var gerr error
		run.Safe(func() {
			db2.View(func(tx *nutsdb.Tx) error { e, gerr = tx.Get("zz-cont", []byte(k)); return nil })
		})
		if gerr != nil || e == nil || string(e.Value) != string(val) {
			add("recovery", "continuation-lost", "a transaction committed after recovery is not readable after the next Open (key %s: %v)", k, gerr)
			break
		}
	}
	return db2
}

// crashExec runs p taking images per policy (or only the explicit snapshot
// faults of p, when it has any: replay mode) and judges them.
func crashExec(seed uint64, p *prog.Program, pol func(r *core.Rng) *core.SnapPolicy, jm judgeMode, opt run.Options) *RunResult {
	r := run.NewRunner(seed, p, opt)
	if !hasSnapFaults(p) && pol != nil {
		sp := pol(core.NewRng(seed).Derive("snap"))
		r.W.Faults.Policy = sp
	}
	r.Run()
	endSnap := !hasSnapFaults(p) && pol != nil
	for _, f := range p.Faults {
		if f.StepID == -2 {
			endSnap = true
		}
	}
	if endSnap && !r.Dead {
		r.W.BeginStep(-2)
		r.W.SnapNow("crash", 0)
		r.W.EndStep()
	}
	r.Finish()
	res := collect(r)
	vs, n, wit := judgeSnapshots(r, jm)
	res.Viol = append(res.Viol, vs...)
	res.Images = n
	res.Witness = wit
	return res
}
