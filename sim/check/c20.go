package check

import (
	"verifsim/core"
	"verifsim/gen"
	"verifsim/prog"
	"verifsim/run"
)

func init() {
	Register(&Spec{
		ID: "C20", Level: "exploration",
		Rule: "seeded stateful API fuzzing inside the simulator: every DB/Tx call with arguments from boundary-heavy domains (empty keys and buckets, '|' separators, indexes and counts -8..7 plus math.MinInt64/MaxInt64/MinInt32/MaxInt32, reversed ranges, NaN and +-Inf scores, invalid regular expressions, nil options), in arbitrary order, in transactions that also touch what they already changed, in read-only transactions, on finished transactions, after Close (Update, View, Merge, Backup, Close again), Update(nil)/View(nil), with reopens; fault-free; " +
			"one run in five is a scheduled program (2-5 tasks of transactions, optionally Merge and Backup) in which one task calls Close at a seeded point of the others' Begin/Commit paths; required: no call, no later Commit and no later Open panics (panics are recovered and reported with the panicking nutsdb function); non-trivial = at least 10 calls were made",
		Gen: func(r *core.Rng, tier string) *prog.Program {
			if r.Bool(0.2) {
				// lifecycle calls racing with transactions: Close (and Merge,
				// Backup) from one task while others are inside Begin/Commit
				cp := gen.ConcParams{Modes: []int{0, 1, 2}, Segs: []int64{128, 256, 4096}, MinTasks: 2, MaxTasks: 5, MaxDBs: 1, MaxSteps: 3,
					DS: []string{"kv", "list", "set", "zset"}, Close: true, Merge: r.Bool(0.4), Backup: r.Bool(0.2)}
				return gen.Conc(r, cp)
			}
			p := gen.MixParams{Modes: []int{0}, Segs: []int64{128, 256, 512, 4096}, DS: []string{"kv", "list", "set", "zset"}, MinTx: 3, MaxTx: 16, MaxOps: 6,
				Views: true, ViewWrites: true, AfterP: 0.2, Reopen: 0.1, BadEnds: 0.15, BigP: 0.05, SelfRead: true, Boundary: true, KVTTL: true, Merge: 0.05}
			if r.Bool(0.3) {
				p.DS = []string{"kv"}
				p.Modes = []int{0, 1, 2}
			}
			if tier == "thorough" {
				p.MaxTx = 40
			}
			pg := gen.Mix(r, p)
			// sprinkle lifecycle misuse
			var out []prog.Step
			for _, st := range pg.Steps {
				out = append(out, st)
				switch {
				case r.Bool(0.04):
					out = append(out, prog.Step{K: "nilfn"})
				case r.Bool(0.04):
					// calls on a closed database
					out = append(out, prog.Step{K: prog.SClose})
					for j := r.Range(1, 3); j > 0; j-- {
						switch r.Intn(5) {
						case 0:
							out = append(out, prog.Step{K: prog.SMerge})
						case 1:
							out = append(out, prog.Step{K: prog.SBackup, Dir: "/backup"})
						case 2:
							out = append(out, prog.Step{K: prog.SClose})
						case 3:
							out = append(out, prog.Step{K: prog.STx, Ops: []prog.Op{{K: "put", B: "b", Key: "a", Val: "x"}}})
						default:
							out = append(out, prog.Step{K: prog.SView, Ops: []prog.Op{{K: "get", B: "b", Key: "a"}}})
						}
					}
					out = append(out, prog.Step{K: prog.SOpen})
				case r.Bool(0.03):
					out = append(out, prog.Step{K: prog.SBackup, Dir: "/backup"})
				}
			}
			pg.Steps = out
			pg.Renumber()
			return pg
		},
		Exec: func(seed uint64, p *prog.Program) *RunResult {
			if p.Tasks > 0 {
				return lifecycleExec(seed, p)
			}
			r, res := seqExec(seed, p, run.Options{Deferred: true, NoModel: true})
			calls := 0
			for _, t := range r.Trace {
				calls += len(t.Res) + 1
			}
			res.Nontrivial = calls >= 10
			return res
		},
		Classes: classes("panic", "open-panic", "deadlock"),
		Assume:  []string{"fault-free: no I/O errors are injected (the simulator contributes state — closed, finished, reopened — determinism and shrinking; the scheduled fifth of the runs adds the interleaving of Close with running transactions)"},
	})
}

// lifecycleExec runs a scheduled program containing Close calls; only panics
// and deadlocks are judged (what a transaction returns around a concurrent
// Close is not part of this property).
func lifecycleExec(seed uint64, p *prog.Program) *RunResult {
	c := run.NewConcRunner(seed, p)
	rng := core.NewRng(seed).Derive("sched")
	switchP := []float64{1, 1, 0.5, 0.2}[rng.Intn(4)]
	c.Run(rng, switchP)
	res := &RunResult{ND: progND(p), LogHash: c.W.Log.H, Probes: c.W.Stats.Probes, Faults: c.W.Stats.Faults, IO: c.W.Stats.IOByKind, SimNS: c.W.Stats.SimAdvance}
	for _, v := range c.Viol {
		if v.Class == "panic" || v.Class == "deadlock" {
			res.Viol = append(res.Viol, v)
		}
	}
	if c.Sched == nil {
		return res
	}
	res.Yields, res.Switches = c.W.Stats.Yields, c.W.Stats.Switches
	res.Schedules = schedHash(c.Sched.Trace)
	res.Trace = c.Sched.Trace
	if c.Sched.Capped {
		res.Inconcl++
		return res
	}
	closedDuring := false
	for _, a := range c.Hist {
		if a.Kind != prog.SClose {
			continue
		}
		for _, b := range c.Hist {
			if b.Kind != prog.SClose && b.DB == a.DB && a.Invoke < b.Return && b.Invoke < a.Return {
				closedDuring = true
			}
		}
	}
	if closedDuring {
		res.Probes["close-overlapped-a-call"]++
	}
	res.Nontrivial = len(c.Hist) >= 3
	return res
}
