package check

import (
	"verifsim/core"
	"verifsim/gen"
	"verifsim/prog"
	"verifsim/run"
)

func init() {
	Register(&Spec{
		ID: "C20", Level: "exploration",
		Rule: "seeded stateful API fuzzing inside the simulator: every DB/Tx call with arguments from boundary-heavy domains (empty keys and buckets, '|' separators, indexes and counts -8..7 plus math.MinInt64/MaxInt64/MinInt32/MaxInt32, reversed ranges, NaN and +-Inf scores, invalid regular expressions, nil options), in arbitrary order, in transactions that also touch what they already changed, in read-only transactions, on finished transactions, after Close (Update, View, Merge, Backup, Close again), Update(nil)/View(nil), with reopens; fault-free; " +
			"required: no call, no later Commit and no later Open panics (panics are recovered and reported with the panicking nutsdb function); non-trivial = at least 10 calls were made",
		Gen: func(r *core.Rng, tier string) *prog.Program {
			p := gen.MixParams{Modes: []int{0}, Segs: []int64{128, 256, 512, 4096}, DS: []string{"kv", "list", "set", "zset"}, MinTx: 3, MaxTx: 16, MaxOps: 6,
				Views: true, ViewWrites: true, AfterP: 0.2, Reopen: 0.1, BadEnds: 0.15, BigP: 0.05, SelfRead: true, Boundary: true, KVTTL: true, Merge: 0.05}
			if r.Bool(0.3) {
				p.DS = []string{"kv"}
				p.Modes = []int{0, 1, 2}
			}
			if tier == "thorough" {
				p.MaxTx = 40
			}
			pg := gen.Mix(r, p)
			// sprinkle lifecycle misuse
			var out []prog.Step
			for _, st := range pg.Steps {
				out = append(out, st)
				switch {
				case r.Bool(0.04):
					out = append(out, prog.Step{K: "nilfn"})
				case r.Bool(0.04):
					// calls on a closed database
					out = append(out, prog.Step{K: prog.SClose})
					for j := r.Range(1, 3); j > 0; j-- {
						switch r.Intn(5) {
						case 0:
							out = append(out, prog.Step{K: prog.SMerge})
						case 1:
							out = append(out, prog.Step{K: prog.SBackup, Dir: "/backup"})
						case 2:
							out = append(out, prog.Step{K: prog.SClose})
						case 3:
							out = append(out, prog.Step{K: prog.STx, Ops: []prog.Op{{K: "put", B: "b", Key: "a", Val: "x"}}})
						default:
							out = append(out, prog.Step{K: prog.SView, Ops: []prog.Op{{K: "get", B: "b", Key: "a"}}})
						}
					}
					out = append(out, prog.Step{K: prog.SOpen})
				case r.Bool(0.03):
					out = append(out, prog.Step{K: prog.SBackup, Dir: "/backup"})
				}
			}
			pg.Steps = out
			pg.Renumber()
			return pg
		},
		Exec: func(seed uint64, p *prog.Program) *RunResult {
			r, res := seqExec(seed, p, run.Options{Deferred: true, NoModel: true})
			calls := 0
			for _, t := range r.Trace {
				calls += len(t.Res) + 1
			}
			res.Nontrivial = calls >= 10
			return res
		},
		Classes: classes("panic", "open-panic"),
		Assume:  []string{"fault-free: no I/O errors are injected (the simulator contributes state — closed, finished, reopened — determinism and shrinking; there is no schedule dimension)"},
	})
}
