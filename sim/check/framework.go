// Package check holds the per-property checks (generator + executor + oracle
// selection), the seeded search loop, the delta-debugging shrinker, replay and
// the evidence writer.
package check

import (
	"encoding/json"
	"fmt"
	"hash/fnv"
	"os"
	"runtime"
	"sort"
	"strings"
	"sync"
	"time"

	"verifsim/core"
	"verifsim/prog"
	"verifsim/run"
)

// RunResult is what one simulated run reports.
type RunResult struct {
	Viol       []run.Violation
	Nontrivial bool
	LogHash    uint64
	Probes     map[string]int
	Faults     map[string]int
	IO         map[string]int
	SimNS      int64
	StateHash  []uint64 // abstract states reached (hash of model state after each step)
	Images     int      // crash / power-loss images mounted and judged
	Schedules  uint64   // hash of the schedule (scheduled runs)
	Inconcl    int
	Yields     int
	Switches   int
	ND         bool                  // the run passed a site that follows Go's map iteration order (see run.Runner.ND)
	Aborted    bool                  // the run could not be judged to the end for reasons outside this property
	Trace      []int                 // scheduled runs: the task chosen at each scheduling decision
	Witness    map[string]core.Fault // for image-based failures: violation signature -> explicit fault reproducing the first image that shows it
}

// Spec is one property check.
type Spec struct {
	ID    string
	Level string // evidence level
	Rule  string
	Gen   func(r *core.Rng, tier string) *prog.Program
	Exec  func(seed uint64, p *prog.Program) *RunResult
	// Deep, if set, is used while shrinking an image-based failure: it takes
	// every image at every FMP so that a shrunk program is judged on all of its
	// crash points, not on an ordinal that shifted.
	Deep func(seed uint64, p *prog.Program) *RunResult
	// ExecTier, if set, returns the executor for a tier (sampling depth differs).
	ExecTier func(tier string) func(seed uint64, p *prog.Program) *RunResult
	Classes  map[string]bool // violation classes that are this property's business
	Assume   []string
	Real     []string
	Stub     []string
	// Known findings: avoidance is built into Gen; each witness must still reproduce.
	QuickSecs    int
	ThoroughSecs int
	Race         bool // also run under the race-detector build
}

var Specs = map[string]*Spec{}

func Register(s *Spec) { Specs[s.ID] = s }

func classes(cs ...string) map[string]bool {
	m := map[string]bool{}
	for _, c := range cs {
		m[c] = true
	}
	return m
}

// Relevant is relevant, exported for the self-test.
func (s *Spec) Relevant(vs []run.Violation) []run.Violation { return s.relevant(vs) }

// relevant filters violations down to the property's own oracle clauses.
func (s *Spec) relevant(vs []run.Violation) []run.Violation {
	var out []run.Violation
	for _, v := range vs {
		if s.Classes[v.Class] || v.Class == "hang" {
			out = append(out, v)
		}
	}
	return out
}

// ---------------------------------------------------------------- hang watchdog

// RunTimeout bounds the wall-clock time of one simulated run (a run normally
// takes milliseconds; the slowest legitimate ones, with values of a megabyte,
// a few seconds).  A run that is still executing nutsdb code after that is
// reported as a violation of class "hang": some API call does not return.
var RunTimeout = 120 * time.Second

// OnHang, set by the worker command, receives the partial result of a worker
// whose current run hangs inside nutsdb, writes it out and ends the process.
var OnHang func(out *WorkerOut)

// nutsdbFrame returns the innermost nutsdb function of the first goroutine
// that is executing (or runnable in) nutsdb code, and that goroutine's stack.
func nutsdbFrame(all string) (fn string, stack string) {
	for _, blk := range strings.Split(all, "\n\n") {
		if !strings.HasPrefix(blk, "goroutine ") {
			continue
		}
		head := blk
		if i := strings.IndexByte(blk, '\n'); i >= 0 {
			head = blk[:i]
		}
		if !strings.Contains(head, "[running") && !strings.Contains(head, "[runnable") {
			continue
		}
		for _, ln := range strings.Split(blk, "\n") {
			if strings.HasPrefix(ln, "github.com/xujiajun/nutsdb") {
				f := ln
				if i := strings.LastIndexByte(f, '('); i > 0 {
					f = f[:i]
				}
				return f, blk
			}
			if strings.HasPrefix(ln, "verifsim/") {
				break // the harness is on top: not a hang inside the system under test
			}
		}
	}
	return "", ""
}

type runWatch struct {
	mu    sync.Mutex
	seed  uint64
	run   int
	p     *prog.Program
	start time.Time
	on    bool
}

func (w *runWatch) begin(seed uint64, run int, p *prog.Program) {
	w.mu.Lock()
	w.seed, w.run, w.p, w.start, w.on = seed, run, p, time.Now(), true
	w.mu.Unlock()
}

func (w *runWatch) end() {
	w.mu.Lock()
	w.on = false
	w.mu.Unlock()
}

// watch polls; when the current run exceeds RunTimeout and two stack samples
// taken five seconds apart both show a goroutine inside nutsdb, the run is
// recorded as a hang and OnHang ends the process.
func (w *runWatch) watch(s *Spec, tier string, out *WorkerOut) {
	for {
		time.Sleep(2 * time.Second)
		w.mu.Lock()
		on, start, seed, runIdx, p := w.on, w.start, w.seed, w.run, w.p
		w.mu.Unlock()
		if !on || time.Since(start) < RunTimeout || OnHang == nil {
			continue
		}
		sample := func() (string, string) {
			buf := make([]byte, 1<<20)
			return nutsdbFrame(string(buf[:runtime.Stack(buf, true)]))
		}
		f1, _ := sample()
		time.Sleep(5 * time.Second)
		w.mu.Lock()
		still := w.on && w.run == runIdx
		w.mu.Unlock()
		f2, st := sample()
		if !still || f1 == "" || f2 == "" {
			continue
		}
		if len(st) > 3000 {
			st = st[:3000]
		}
		v := run2Violation(fmt.Sprintf("a simulated run is still executing nutsdb code after %v of wall-clock time (innermost nutsdb frames: %s, then %s): some API call does not return\n%s", time.Since(start).Round(time.Second), f1, f2, st), f2)
		out.Failures = append(out.Failures, Failure{Prop: s.ID, Seed: seed, Run: runIdx, Tier: tier, Program: p, Viol: []run.Violation{v}})
		OnHang(out)
		return
	}
}

func run2Violation(msg, fn string) run.Violation {
	return run.Violation{Class: "hang", StepID: -1, Op: -1, Msg: msg, Sig: "hang/" + fn}
}

func propHash(id string) uint64 {
	h := fnv.New64a()
	h.Write([]byte(id))
	return h.Sum64()
}

// RunSeed derives the seed of run i of a property from the batch seed.
func RunSeed(batch uint64, id string, i int) uint64 {
	return core.Mix(batch, propHash(id), uint64(i))
}

// GenProgram regenerates the program of a run (a pure function of the seed).
func (s *Spec) GenProgram(seed uint64, tier string) *prog.Program {
	return s.Gen(core.NewRng(seed).Derive("gen"), tier)
}

// Failure is one failing run, as found by a worker.
type Failure struct {
	Prop    string          `json:"prop"`
	Seed    uint64          `json:"seed"`
	Run     int             `json:"run"`
	Tier    string          `json:"tier"`
	Program *prog.Program   `json:"program"`
	Viol    []run.Violation `json:"violations"`
}

// WorkerOut is what a worker process writes.
type WorkerOut struct {
	Prop       string            `json:"prop"`
	Runs       int               `json:"runs"`
	Nontrivial int               `json:"nontrivial"`
	Distinct   []uint64          `json:"distinct"` // log hashes of non-trivial runs
	States     []uint64          `json:"states"`
	Schedules  []uint64          `json:"schedules"`
	Probes     map[string]int    `json:"probes"`
	Faults     map[string]int    `json:"faults"`
	IO         map[string]int    `json:"io"`
	SimNS      int64             `json:"sim_ns"`
	Images     int               `json:"images"`
	Inconcl    int               `json:"inconclusive"`
	Aborted    int               `json:"aborted"`
	Yields     int               `json:"yields"`
	Switches   int               `json:"switches"`
	Failures   []Failure         `json:"failures"`
	Samples    []json.RawMessage `json:"samples"`
	WallS      float64           `json:"wall_s"`
	Hang       bool              `json:"hang"`
}

func addMap(dst, src map[string]int) {
	for k, v := range src {
		dst[k] += v
	}
}

// Worker runs runs k, k+stride, ... until the deadline or maxRuns.
func Worker(s *Spec, tier string, batch uint64, k, stride, maxRuns int, deadline time.Time) *WorkerOut {
	out := &WorkerOut{Prop: s.ID, Probes: map[string]int{}, Faults: map[string]int{}, IO: map[string]int{}}
	start := time.Now()
	distinct := map[uint64]bool{}
	states := map[uint64]bool{}
	scheds := map[uint64]bool{}
	rw := globalRaceWatcher()
	watch := &runWatch{}
	go watch.watch(s, tier, out)
	for i := k; maxRuns <= 0 || i < maxRuns; i += stride {
		if time.Now().After(deadline) {
			break
		}
		seed := RunSeed(batch, s.ID, i)
		p := s.GenProgram(seed, tier)
		exec := s.Exec
		if s.ExecTier != nil {
			exec = s.ExecTier(tier)
		}
		watch.begin(seed, i, p)
		res := exec(seed, p)
		watch.end()
		if rw != nil {
			rv, total := rw.poll()
			res.Viol = append(res.Viol, rv...)
			out.Probes["race-reports-total"] += total
			out.Probes["race-reports-in-nutsdb"] += len(rv)
		}
		out.Runs++
		addMap(out.Probes, res.Probes)
		addMap(out.Faults, res.Faults)
		addMap(out.IO, res.IO)
		out.SimNS += res.SimNS
		out.Images += res.Images
		out.Inconcl += res.Inconcl
		out.Yields += res.Yields
		out.Switches += res.Switches
		if res.Aborted {
			out.Aborted++
		}
		if res.Nontrivial && !distinct[res.LogHash] {
			distinct[res.LogHash] = true
			out.Nontrivial++
		}
		for _, h := range res.StateHash {
			states[h] = true
		}
		if res.Schedules != 0 {
			scheds[res.Schedules] = true
		}
		if len(out.Samples) < 2 && res.Nontrivial {
			b, _ := json.Marshal(map[string]interface{}{"seed": seed, "run": i, "program": p, "log_hash": fmt.Sprintf("%x", res.LogHash)})
			out.Samples = append(out.Samples, b)
		}
		if vs := s.relevant(res.Viol); len(vs) > 0 {
			if w, ok := res.Witness[vs[0].Sig]; ok {
				p = p.Clone()
				p.Faults = append(p.Faults, w)
			}
			out.Failures = append(out.Failures, Failure{Prop: s.ID, Seed: seed, Run: i, Tier: tier, Program: p, Viol: vs})
			if len(out.Failures) >= 5 {
				break
			}
		}
	}
	for h := range distinct {
		out.Distinct = append(out.Distinct, h)
	}
	for h := range states {
		out.States = append(out.States, h)
	}
	for h := range scheds {
		out.Schedules = append(out.Schedules, h)
	}
	out.WallS = time.Since(start).Seconds()
	return out
}

// ---------------------------------------------------------------- shrinking

// sameFailure reports whether vs contains a violation with signature sig.
func sameFailure(vs []run.Violation, sig string) bool {
	for _, v := range vs {
		if v.Sig == sig {
			return true
		}
	}
	return false
}

// Shrink minimises a failing program by delta debugging: drop steps, drop
// operations inside transactions, drop faults, simplify arguments and the
// configuration — keeping a candidate only if it fails with the same
// violation signature.
func Shrink(s *Spec, seed uint64, p *prog.Program, sig string, budget time.Duration) *prog.Program {
	deadline := time.Now().Add(budget)
	if len(p.Schedule) > 0 {
		// candidates are judged under the seed-derived schedule; the schedule
		// actually taken is recorded again for the final program
		p = p.Clone()
		p.Schedule = nil
	}
	exec := s.Exec
	if s.Deep != nil && hasSnapFaults(p) {
		exec = s.Deep
		p = stripSnapFaults(p)
		if !sameFailure(s.relevant(exec(seed, p).Viol), sig) {
			return p0(p, s, seed)
		}
	}
	fails := func(q *prog.Program) bool {
		if time.Now().After(deadline) {
			return false
		}
		res := exec(seed, q)
		return sameFailure(s.relevant(res.Viol), sig)
	}
	cur := p.Clone()
	changed := true
	for changed && time.Now().Before(deadline) {
		changed = false
		// drop chunks of steps
		for chunk := len(cur.Steps) / 2; chunk >= 1; chunk /= 2 {
			for i := 0; i+chunk <= len(cur.Steps); {
				q := cur.Clone()
				q.Steps = append(q.Steps[:i:i], q.Steps[i+chunk:]...)
				if fails(q) {
					cur = q
					changed = true
				} else {
					i += chunk
				}
			}
		}
		// drop ops inside transactions
		for si := range cur.Steps {
			for oi := 0; oi < len(cur.Steps[si].Ops); {
				if len(cur.Steps[si].Ops) == 1 {
					break
				}
				q := cur.Clone()
				q.Steps[si].Ops = append(q.Steps[si].Ops[:oi:oi], q.Steps[si].Ops[oi+1:]...)
				if fails(q) {
					cur = q
					changed = true
				} else {
					oi++
				}
			}
		}
		// drop faults
		for fi := 0; fi < len(cur.Faults); {
			q := cur.Clone()
			q.Faults = append(q.Faults[:fi:fi], q.Faults[fi+1:]...)
			if fails(q) {
				cur = q
				changed = true
			} else {
				fi++
			}
		}
		// simplify arguments
		for si := range cur.Steps {
			for oi := range cur.Steps[si].Ops {
				op := cur.Steps[si].Ops[oi]
				try := func(mut func(o *prog.Op)) {
					q := cur.Clone()
					mut(&q.Steps[si].Ops[oi])
					if fmt.Sprint(q.Steps[si].Ops[oi]) == fmt.Sprint(cur.Steps[si].Ops[oi]) {
						return
					}
					if fails(q) {
						cur = q
						changed = true
					}
				}
				if op.TTL != 0 {
					try(func(o *prog.Op) { o.TTL = 0 })
				}
				if op.TS != 0 {
					try(func(o *prog.Op) { o.TS = 0 })
				}
				if op.Big != 0 {
					try(func(o *prog.Op) { o.Big = 0 })
				}
				if len(op.Vals) > 1 {
					try(func(o *prog.Op) { o.Vals = o.Vals[:1] })
				}
				if op.K == "putts" {
					try(func(o *prog.Op) { o.K = "put"; o.TS = 0 })
				}
			}
			if cur.Steps[si].End != "" {
				q := cur.Clone()
				q.Steps[si].End = ""
				if fails(q) {
					cur = q
					changed = true
				}
			}
		}
		// simplify configuration
		cfgTry := func(mut func(c *prog.Config)) {
			q := cur.Clone()
			mut(&q.Cfg)
			if q.Cfg == cur.Cfg {
				return
			}
			if fails(q) {
				cur = q
				changed = true
			}
		}
		cfgTry(func(c *prog.Config) { c.RWMode = 0 })
		cfgTry(func(c *prog.Config) { c.LoadMode = 0 })
		cfgTry(func(c *prog.Config) { c.Sync = false })
		cfgTry(func(c *prog.Config) { c.RandSkip = 0 })
		cfgTry(func(c *prog.Config) { c.IdxMode = 0 })
		cfgTry(func(c *prog.Config) { c.SegSize = 4096 })
	}
	if s.Deep != nil && !hasSnapFaults(cur) {
		// re-derive the explicit fault that reproduces the failing image
		res := s.Deep(seed, cur)
		if w, ok := res.Witness[sig]; ok {
			cur.Faults = append(cur.Faults, w)
		}
	}
	return cur
}

func p0(p *prog.Program, s *Spec, seed uint64) *prog.Program { return p }

// ---------------------------------------------------------------- replay files

// Replay is what a replay file holds.
type Replay struct {
	Prop      string          `json:"property"`
	Seed      uint64          `json:"seed"`
	Tier      string          `json:"tier"`
	Program   *prog.Program   `json:"program"`
	Violation run.Violation   `json:"violation"`
	All       []run.Violation `json:"all_violations,omitempty"`
	Original  *prog.Program   `json:"original_program,omitempty"`
	Text      string          `json:"readable"`
	Note      string          `json:"note,omitempty"`
}

func WriteReplay(path string, rp *Replay) error {
	rp.Text = rp.Program.String()
	b, err := json.MarshalIndent(rp, "", " ")
	if err != nil {
		return err
	}
	return os.WriteFile(path, b, 0644)
}

func ReadReplay(path string) (*Replay, error) {
	b, err := os.ReadFile(path)
	if err != nil {
		return nil, err
	}
	var rp Replay
	if err := json.Unmarshal(b, &rp); err != nil {
		return nil, err
	}
	return &rp, nil
}

// Reproduce re-executes a replay and reports whether the same violation shows.
func Reproduce(rp *Replay) (bool, []run.Violation) {
	s := Specs[rp.Prop]
	if s == nil {
		return false, nil
	}
	res := s.Exec(rp.Seed, rp.Program)
	if rw := globalRaceWatcher(); rw != nil {
		rv, _ := rw.poll()
		res.Viol = append(res.Viol, rv...)
	}
	return sameFailure(res.Viol, rp.Violation.Sig), res.Viol
}

func sortedKeys(m map[string]int) []string {
	ks := make([]string, 0, len(m))
	for k := range m {
		ks = append(ks, k)
	}
	sort.Strings(ks)
	return ks
}

var _ = strings.Join

// MinimizeSchedule reduces the context switches of a recorded schedule while
// the same violation persists: each switch is replaced by "keep running the
// task that was running" (when the recorded choice becomes invalid the replayer
// falls back to the lowest runnable task, deterministically), and the tail is
// cut.  The result is re-recorded from the run it produces.
func MinimizeSchedule(s *Spec, seed uint64, p *prog.Program, sig string, budget time.Duration) *prog.Program {
	deadline := time.Now().Add(budget)
	cur := p.Clone()
	fails := func(q *prog.Program) bool {
		return sameFailure(s.Exec(seed, q).Viol, sig)
	}
	if len(cur.Schedule) == 0 || !fails(cur) {
		return p
	}
	// cut the tail
	for n := len(cur.Schedule) / 2; n >= 1 && time.Now().Before(deadline); n /= 2 {
		for len(cur.Schedule) > n {
			q := cur.Clone()
			q.Schedule = q.Schedule[:len(q.Schedule)-n]
			if len(q.Schedule) == 0 || !fails(q) {
				break
			}
			cur = q
		}
	}
	// remove switches
	for i := 1; i < len(cur.Schedule) && time.Now().Before(deadline); i++ {
		if cur.Schedule[i] == cur.Schedule[i-1] {
			continue
		}
		q := cur.Clone()
		q.Schedule[i] = q.Schedule[i-1]
		if fails(q) {
			cur = q
		}
	}
	// re-record what is actually executed
	res := s.Exec(seed, cur)
	if sameFailure(res.Viol, sig) && len(res.Trace) > 0 {
		q := cur.Clone()
		q.Schedule = res.Trace
		if fails(q) {
			return q
		}
	}
	return cur
}
