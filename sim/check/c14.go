package check

import (
	"fmt"
	"hash/fnv"
	"time"

	"github.com/anishathalye/porcupine"
	"verifsim/core"
	"verifsim/gen"
	"verifsim/model"
	"verifsim/prog"
	"verifsim/run"
)

// applyTx replays one recorded transaction on a model state with the results
// it observed.  It returns the state after it and an error if some result is
// not explained.
func applyTx(m *model.State, r *run.TxRec, now int64) (*model.State, error) {
	if r.Kind == prog.SBackup {
		return m, nil
	}
	mtx := m.Begin(true)
	for i, op := range r.Ops {
		if i >= len(r.Res) {
			break
		}
		if err := mtx.Step(op, now, r.Res[i], r.Writable); err != nil {
			return m, fmt.Errorf("step %d (%s, task %d) op %d: %s %v", r.StepID, r.Kind, r.Task, i, op.String(), err)
		}
	}
	if r.Writable && r.Err == "" {
		return mtx.Commit(), nil
	}
	return m, nil
}

// witnessCheck replays the transactions of one database in lock-grant order.
func witnessCheck(c *run.ConcRunner, db int) (final *model.State, states map[int64]*model.State, err error) {
	m := model.New()
	now := c.W.Clock.Unix()
	states = map[int64]*model.State{}
	for _, r := range c.ByGrant(db) {
		states[r.Grant] = m
		nm, e := applyTx(m, r, now)
		if e != nil {
			return m, states, e
		}
		m = nm
	}
	return m, states, nil
}

// porcupineCheck asks whether any real-time-consistent order explains the history of one database.
func porcupineCheck(c *run.ConcRunner, db int) porcupine.CheckResult {
	now := c.W.Clock.Unix()
	var ops []porcupine.Operation
	for _, r := range c.Hist {
		if r.DB != db || !r.Done || (r.Kind != prog.STx && r.Kind != prog.SView) {
			continue
		}
		ops = append(ops, porcupine.Operation{ClientId: r.Task, Input: r, Call: r.Invoke, Output: nil, Return: r.Return})
	}
	mdl := porcupine.Model{
		Init: func() interface{} { return model.New() },
		Step: func(state, input, output interface{}) (bool, interface{}) {
			ns, err := applyTx(state.(*model.State), input.(*run.TxRec), now)
			if err != nil {
				return false, state
			}
			return true, ns
		},
		Equal: func(a, b interface{}) bool { return a.(*model.State).Hash() == b.(*model.State).Hash() },
	}
	return porcupine.CheckOperationsTimeout(mdl, ops, 10*time.Second)
}

func schedHash(tr []int) uint64 {
	h := fnv.New64a()
	for _, t := range tr {
		h.Write([]byte{byte(t)})
	}
	return h.Sum64()
}

// progND tells whether a program reaches one of the two places where nutsdb
// follows Go's map iteration order.
func progND(p *prog.Program) bool {
	for _, st := range p.Steps {
		for _, op := range st.Ops {
			if op.K == "spop" {
				return true // SPop follows Go's map iteration order
			}
		}
	}
	return p.Cfg.IdxMode == 2 // a commit rotating two segments writes its index files in map order
}

// concExec runs a scheduled program and judges its history.
func concExec(seed uint64, p *prog.Program, finalReopen bool, backup bool) (*run.ConcRunner, *RunResult) {
	if core.RaceBuild {
		// mapped file bytes are kernel memory for the real detector; in the
		// simulator they would be Go memory, so the race build uses FileIO only
		p.Cfg.RWMode, p.Cfg.LoadMode = 0, 0
	}
	c := run.NewConcRunner(seed, p)
	rng := core.NewRng(seed).Derive("sched")
	switchP := []float64{1, 1, 0.5, 0.2}[rng.Intn(4)]
	c.Run(rng, switchP)
	nd := progND(p)
	res := &RunResult{ND: nd, Viol: c.Viol, LogHash: c.W.Log.H, Probes: c.W.Stats.Probes, Faults: c.W.Stats.Faults, IO: c.W.Stats.IOByKind, SimNS: c.W.Stats.SimAdvance}
	if c.Sched == nil {
		return c, res
	}
	res.Yields, res.Switches = c.W.Stats.Yields, c.W.Stats.Switches
	res.Schedules = schedHash(c.Sched.Trace)
	res.Trace = c.Sched.Trace
	if c.Sched.Capped {
		res.Inconcl++
		return c, res
	}
	if c.Sched.Deadlock != "" {
		return c, res
	}
	for _, v := range c.Viol {
		if v.Class == "panic" {
			return c, res // the lock may be left held; nothing more can be judged
		}
	}
	add := func(class, sig, format string, args ...interface{}) {
		res.Viol = append(res.Viol, run.Violation{Class: class, StepID: -1, Op: -1, Sig: class + "/" + sig, Msg: fmt.Sprintf(format, args...)})
	}
	overlap := 0
	for db := range c.DBs {
		final, states, err := witnessCheck(c, db)
		if err != nil {
			res.Probes["witness-order-failures"]++
			pr := porcupineCheck(c, db)
			switch pr {
			case porcupine.Illegal:
				add("history", "not-serializable", "db %d: no serial order consistent with real time explains the history; in lock-grant order: %v", db, err)
			case porcupine.Unknown:
				res.Inconcl++
				res.Probes["porcupine-inconclusive"]++
			default:
				res.Probes["explained-by-another-order"]++
			}
			continue
		}
		res.StateHash = append(res.StateHash, final.Hash())
		if finalReopen {
			// after everything finished: clean reopen must show the model
			var cerr error
			if pan := run.Safe(func() { cerr = c.DBs[db].Close() }); pan != "" || cerr != nil {
				add("final", "close", "db %d: Close after the run failed: %v %s", db, cerr, pan)
				continue
			}
			c.W.Clock.Advance(time.Millisecond)
			ndb, oerr, pan := run.OpenDB(c.Opts[db])
			if pan != "" || oerr != nil {
				add("final", "open", "db %d: Open after the run failed: %v %s", db, oerr, pan)
				continue
			}
			got, bad := c.ObserveDB(ndb)
			run.Safe(func() { ndb.Close() })
			if bad != "" {
				add("final", "observe", "db %d: observation after reopen failed: %s", db, bad)
			} else if e := final.CheckObservation(c.Obs, got, c.W.Clock.Unix()); e != nil {
				add("final", "state", "db %d: after all tasks finished and a reopen, the contents differ from the serial result: %v", db, e)
			}
		}
		if backup && db == 0 {
			judgeBackup(c, states, final, add)
		}
	}
	for i, a := range c.Hist {
		for _, b := range c.Hist[i+1:] {
			if a.DB == b.DB && a.Task != b.Task && a.Invoke < b.Return && b.Invoke < a.Return {
				overlap++
			}
		}
	}
	res.Probes["overlapping-tx-pairs"] += overlap
	res.Nontrivial = overlap > 0 && res.Switches > 2
	return c, res
}

func judgeBackup(c *run.ConcRunner, states map[int64]*model.State, final *model.State, add func(class, sig, format string, args ...interface{})) {
	var bk *run.TxRec
	for _, r := range c.Hist {
		if r.Kind == prog.SBackup && r.Done {
			bk = r
		}
	}
	if bk == nil {
		return
	}
	if bk.Err != "" {
		add("backup", "failed", "Backup returned an error: %s", bk.Err)
		return
	}
	want := states[bk.Grant]
	if want == nil {
		want = final
	}
	opt := c.Opts[0]
	opt.Dir = "/backup"
	c.W.Clock.Advance(time.Millisecond)
	ndb, oerr, pan := run.OpenDB(opt)
	if pan != "" || oerr != nil {
		add("backup", "open", "the backup directory does not open: %v %s", oerr, pan)
		return
	}
	got, bad := c.ObserveDB(ndb)
	run.Safe(func() { ndb.Close() })
	if bad != "" {
		add("backup", "observe", "observation of the backup failed: %s", bad)
		return
	}
	if e := want.CheckObservation(c.Obs, got, c.W.Clock.Unix()); e != nil {
		add("backup", "state", "the backup does not show the state committed when its read transaction started: %v", e)
	}
}

func init() {
	Register(&Spec{
		ID: "C14", Level: "exploration",
		Rule: "2-8 (thorough: 16) tasks running 1-4 mixed View/Update transactions each on 1-3 databases in one process under the seeded cooperative scheduler (a yield at every lock operation, disk call and clock reading; adversarial, random and sticky switching), all index modes, unique values, read-only transactions that repeat their first read at the end; " +
			"oracles: (a) the transactions replayed in lock-grant order on the reference model must explain every result (otherwise porcupine searches for any real-time-consistent order; Illegal is a violation, a time-out is counted as inconclusive and never reported), (b) no deadlock (no runnable task while some are unfinished), (c) after all tasks finish a clean reopen shows the serial result, (d) in the race-detector build, no data race with both innermost frames in nutsdb; non-trivial = at least two transactions of different tasks overlapped on one database",
		Gen: func(r *core.Rng, tier string) *prog.Program {
			p := gen.ConcParams{Modes: []int{0, 1, 2}, Segs: []int64{192, 256, 512, 4096}, MinTasks: 2, MaxTasks: 8, MaxDBs: 3, MaxSteps: 4, DS: []string{"kv", "list", "set", "zset"}}
			if tier == "thorough" {
				p.MaxTasks = 16
			}
			return gen.Conc(r, p)
		},
		Exec: func(seed uint64, p *prog.Program) *RunResult {
			_, res := concExec(seed, p, true, false)
			return res
		},
		Classes: classes("history", "deadlock", "final", "race", "panic"),
		Race:    true,
		Assume:  []string{"no TTL in concurrent programs (the clock is frozen)", "every simulated schedule is a legal real schedule: a task parked before Lock() is a goroutine descheduled just before the call"},
	})
}

func init() {
	Register(&Spec{
		ID: "C17", Level: "exploration",
		Rule: "as C14 (2-8 tasks of mixed View/Update transactions, RAM index modes, KV + sets + sorted sets) plus one task that calls Merge one to three times, all under the seeded cooperative scheduler with a yield at every lock operation and disk call; " +
			"oracles: (a) race-detector build: no data race with both innermost frames in nutsdb, (b) the history of the transactions alone must be explained by the lock-grant order (or, failing that, by some real-time-consistent order found by porcupine): Merge must be invisible, (c) no deadlock, (d) after all tasks finish a clean reopen shows the serial result; non-trivial = a Merge overlapped at least one transaction",
		Gen: func(r *core.Rng, tier string) *prog.Program {
			p := gen.ConcParams{Modes: []int{0, 1}, Segs: []int64{96, 128, 192, 256}, MinTasks: 2, MaxTasks: 6, MaxDBs: 2, MaxSteps: 4, DS: []string{"kv", "set", "zset"}, Merge: true, NoZPop: true}
			if tier == "thorough" {
				p.MaxTasks = 12
			}
			return gen.Conc(r, p)
		},
		Exec: func(seed uint64, p *prog.Program) *RunResult {
			c, res := concExec(seed, p, true, false)
			overlap := false
			for _, m := range c.Hist {
				if m.Kind != prog.SMerge {
					continue
				}
				for _, t := range c.Hist {
					if t.Kind != prog.SMerge && t.DB == m.DB && t.Invoke < m.Return && m.Invoke < t.Return {
						overlap = true
					}
				}
			}
			res.Nontrivial = overlap
			return res
		},
		Classes: classes("history", "deadlock", "final", "race", "panic"),
		Race:    true,
	})
	Register(&Spec{
		ID: "C18", Level: "exploration",
		Rule: "2-6 writer/reader tasks plus one task calling Backup(dir) into a fresh directory of the same simulated disk, all index modes and both RWModes, under the seeded cooperative scheduler (every file operation of the real CopyDir code is a yield point); " +
			"oracle: the backup directory opens with the same options and its full observation equals the model state at the lock grant of the backup's read transaction (the state after exactly the write transactions granted before it); the source database's history must stay serializable; non-trivial = the backup overlapped at least one write transaction",
		Gen: func(r *core.Rng, tier string) *prog.Program {
			p := gen.ConcParams{Modes: []int{0, 1, 2}, Segs: []int64{128, 192, 256, 512}, MinTasks: 2, MaxTasks: 6, MaxDBs: 1, MaxSteps: 4, DS: []string{"kv", "list", "set", "zset"}, Backup: true}
			return gen.Conc(r, p)
		},
		Exec: func(seed uint64, p *prog.Program) *RunResult {
			c, res := concExec(seed, p, false, true)
			overlap := false
			for _, m := range c.Hist {
				if m.Kind != prog.SBackup {
					continue
				}
				for _, t := range c.Hist {
					if t.Kind == prog.STx && t.Invoke < m.Return && m.Invoke < t.Return {
						overlap = true
					}
				}
			}
			res.Nontrivial = overlap
			return res
		},
		Classes: classes("backup", "history", "deadlock", "panic"),
	})
}
