package check

import (
	"fmt"
	"time"

	"verifsim/core"
	"verifsim/gen"
	"verifsim/prog"
	"verifsim/run"
	"verifsim/simmmap"
)

func init() {
	Register(&Spec{
		ID: "C22", Level: "exploration",
		Rule: "seeded KV histories create a directory in one index mode (empty, opened but never written, written, merged, or crashed at a seeded file-mutation point); a copy of each resulting image is then opened with each of the other two index modes; " +
			"required: sparse <-> RAM on a directory that holds at least one committed write returns an error and leaves the directory tree (names, sizes, bytes) identical; RAM <-> RAM succeeds and its full observation equals the model; non-trivial = at least one refusal and, for RAM-created directories, one successful switch were exercised",
		Gen: func(r *core.Rng, tier string) *prog.Program {
			p := gen.KVParams{Modes: []int{0, 1, 2}, Segs: []int64{192, 256, 512}, MinTx: 0, MaxTx: 10, MaxOps: 3, Buckets: 2,
				TTL: false, Deletes: true, Views: r.Bool(0.3), Reopen: 0.1, Merge: 0.1}
			if tier == "thorough" {
				p.MaxTx = 25
			}
			return gen.KV(r, p)
		},
		Exec: func(seed uint64, p *prog.Program) *RunResult {
			r := run.NewRunner(seed, p, run.Options{Deferred: true})
			if !hasSnapFaults(p) {
				r.W.Faults.Policy = &core.SnapPolicy{Crash: true, Rng: core.NewRng(seed).Derive("snap"), P: 0.03, MaxSnaps: 4}
			}
			r.Run()
			if !r.Dead {
				r.Finish() // clean close, then the final image
				r.W.BeginStep(-2)
				r.W.SnapNow("crash", 0)
				r.W.EndStep()
			}
			res := collect(r)
			main := core.W
			defer core.Use(main)
			refusals, switches := 0, 0
			res.Witness = map[string]core.Fault{}
			for _, sn := range r.W.Faults.Snaps {
				for other := 0; other < 3; other++ {
					if other == p.Cfg.IdxMode {
						continue
					}
					res.Images++
					w := core.NewWorld(core.Mix(seed, sn.Digest, uint64(other)))
					w.Clock.SetNS(sn.ClockNS + int64(time.Millisecond))
					w.Disk.Mount(sn.Image)
					core.Use(w)
					core.ResetSeqLocks()
					simmmap.Reset()
					before := core.TreeDigest(w.Disk.Root)
					opt := r.DBOpt
					opt.EntryIdxMode = 0
					q := p.Clone()
					q.Cfg.IdxMode = other
					rr := run.NewRunnerOnWorld(w, q, run.Options{Deferred: true})
					db, err, pan := run.OpenDB(rr.DBOpt)
					where := fmt.Sprintf("directory created in index mode %d (%s image at step %d fmp %d, %d committed), opened with mode %d", p.Cfg.IdxMode, sn.Kind, sn.StepID, sn.FMP, sn.Acked, other)
					add := func(sig, format string, args ...interface{}) {
						v := run.Violation{Class: "idxmode", StepID: sn.StepID, Op: -1, Sig: "idxmode/" + sig, Msg: where + ": " + fmt.Sprintf(format, args...)}
						if _, ok := res.Witness[v.Sig]; !ok {
							res.Witness[v.Sig] = sn.AsFault()
						}
						res.Viol = append(res.Viol, v)
					}
					if pan != "" {
						add("panic", "Open panicked: %s", pan)
						continue
					}
					incompatible := (p.Cfg.IdxMode == 2) != (other == 2)
					if incompatible {
						if err == nil {
							run.Safe(func() { db.Close() })
							if holdsData(sn.Image) {
								add("not-refused", "Open succeeded, want a refusal")
							}
							continue
						}
						refusals++
						if after := core.TreeDigest(w.Disk.Root); after != before {
							add("dir-changed", "Open was refused (%v) but changed the directory:\nbefore:\n%safter:\n%s", err, before, after)
						}
						continue
					}
					// RAM <-> RAM: must open and show the same contents
					if err != nil {
						add("switch-failed", "Open failed: %v", err)
						continue
					}
					switches++
					rr.DB = db
					got, bad := rr.Observe()
					run.Safe(func() { db.Close() })
					if bad != "" {
						add("switch-observe", "observation failed: %s", bad)
						continue
					}
					if sn.Acked < len(r.StateAt) && sn.InFlight < 0 {
						if e := r.StateAt[sn.Acked].CheckObservation(rr.ObsOps, got, w.Clock.Unix()); e != nil {
							add("switch-differs", "contents differ after switching RAM index mode: %v", e)
						}
					}
				}
			}
			res.Probes["c22-refusals"] = refusals
			res.Probes["c22-ram-switches"] = switches
			res.Nontrivial = refusals > 0 && (p.Cfg.IdxMode == 2 || switches > 0)
			return res
		},
		Classes: classes("idxmode"),
	})
}

// holdsData reports whether the image has a data segment with at least one
// record in it (a directory without data need not be refused).
func holdsData(root *core.Node) bool {
	found := false
	var walk func(n *core.Node)
	walk = func(n *core.Node) {
		if n.Dir {
			for _, e := range n.Ents.Nodes() {
				walk(e)
			}
			return
		}
		if len(n.Name) > 4 && n.Name[len(n.Name)-4:] == ".dat" {
			for _, b := range n.Ino.Data {
				if b != 0 {
					found = true
					return
				}
			}
		}
	}
	walk(root)
	return found
}
