package check

import (
	"os"
	"strings"

	"verifsim/core"
	"verifsim/gen"
	"verifsim/prog"
	"verifsim/run"
)

// mergeProgram draws a history for the Merge checks: small segments so that
// many files take part, Merge at seeded points (also twice in a row), more
// writes afterwards, reopens.
func mergeProgram(r *core.Rng, tier string, ds []string, faults bool) *prog.Program {
	maxTx := 14
	if tier == "thorough" {
		maxTx = 35
	}
	var pg *prog.Program
	if len(ds) == 1 && ds[0] == "kv" || r.Bool(0.4) {
		p := gen.KVParams{Modes: []int{0, 1}, Segs: []int64{64, 96, 128, 144, 192, 256}, MinTx: 4, MaxTx: maxTx, MaxOps: 3, Buckets: 2,
			TTL: r.Bool(0.5), Timestamps: r.Bool(0.3), Deletes: true, Advance: r.Bool(0.5), Views: false, BigP: 0.1, BadEnds: 0.1, Reopen: 0.1, Merge: 0.25, ManyKeys: 0.15}
		pg = gen.KV(r, p)
	} else {
		p := gen.MixParams{Modes: []int{0}, Segs: []int64{128, 192, 256}, DS: ds, MinTx: 4, MaxTx: maxTx, MaxOps: 3,
			Reopen: 0.1, Merge: 0.25, BadEnds: 0.1, BigP: 0.05, Advance: r.Bool(0.4), KVTTL: true, NoEmptyMember: true, NoZPop: os.Getenv("NUTSIM_ZPOP") == ""}
		pg = gen.Mix(r, p)
	}
	// make sure there is at least one merge, sometimes two in a row
	pos := len(pg.Steps) / 2
	if len(pg.Steps) > 0 {
		pos = r.Range(len(pg.Steps)/2, len(pg.Steps))
	}
	ms := []prog.Step{{K: prog.SMerge}}
	if r.Bool(0.2) {
		ms = append(ms, prog.Step{K: prog.SMerge})
	}
	pg.Steps = append(pg.Steps[:pos:pos], append(ms, pg.Steps[pos:]...)...)
	pg.Steps = append(pg.Steps, prog.Step{K: prog.SReopen})
	pg.Renumber()
	if r.Bool(0.3) {
		// leave the records of a failed multi-entry commit in a segment before
		// the Merge: a write error on a later entry of an earlier transaction
		for _, st := range pg.Steps {
			if st.K == prog.SMerge {
				break
			}
			if st.K == prog.STx && st.End == "" && len(st.Ops) >= 2 && r.Bool(0.5) {
				pg.Faults = append(pg.Faults, core.Fault{StepID: st.ID, Class: "write", Nth: 1 + r.Intn(len(st.Ops)-1), Kind: "eio"})
				break
			}
		}
	}
	if faults && r.Bool(0.4) {
		var merges []int
		for _, st := range pg.Steps {
			if st.K == prog.SMerge {
				merges = append(merges, st.ID)
			}
		}
		kinds := [][2]string{{"open", "emfile"}, {"trunc", "enospc"}, {"remove", "eio"}, {"read", "eio"}, {"write", "eio"}}
		k := kinds[r.Intn(len(kinds))]
		pg.Faults = append(pg.Faults, core.Fault{StepID: merges[r.Intn(len(merges))], Class: k[0], Nth: r.Intn(12), Kind: k[1]})
	}
	return pg
}

// mergeDS lists the structures the Merge checks exercise.  Lists and sorted
// sets are excluded by recorded known findings (see known_findings.json).
var mergeDS = func() []string {
	if v := os.Getenv("NUTSIM_MERGE_DS"); v != "" {
		return strings.Split(v, ",") // experiments only
	}
	return []string{"kv", "set", "zset"}
}()

func init() {
	Register(&Spec{
		ID: "C15", Level: "exploration",
		Rule: "seeded histories (KV with TTL, deletes and failed transactions in both RAM index modes; sets; sorted sets with ZAdd/ZRem) with 64-256 B segments so that many files take part; Merge at seeded points (also twice in a row, also failing through an injected open/truncate/remove/read/write error inside it), more writes afterwards, reopen; " +
			"after every step (so immediately before and after each Merge) and after the reopens the full observation must equal the model, in which Merge is a no-op; non-trivial = a Merge that processed at least 2 files ran and at least 3 transactions committed",
		Gen: func(r *core.Rng, tier string) *prog.Program { return mergeProgram(r, tier, mergeDS, true) },
		Exec: func(seed uint64, p *prog.Program) *RunResult {
			_, res := seqExec(seed, p, run.Options{Deferred: true, ObserveEvery: true})
			res.Nontrivial = res.IO["remove"] >= 2 && len(res.StateHash) >= 4
			return res
		},
		Classes: classes("observe", "op", "commit-error", "open-failed", "open-panic", "merge-failed"),
		Assume:  []string{"no transaction is running while Merge runs (C17 covers the concurrent case)"},
	})
	c16pol := func(tier string) func(r *core.Rng) *core.SnapPolicy {
		return func(r *core.Rng) *core.SnapPolicy {
			sp := snapPolicy(tier, true, true, false)(r)
			sp.Phases = map[string]bool{"merge": true}
			sp.P = 0.5
			if tier == "thorough" {
				sp.P = 1
			}
			return sp
		}
	}
	c16 := func(tier string) func(uint64, *prog.Program) *RunResult {
		return func(seed uint64, p *prog.Program) *RunResult {
			if p.Tasks > 0 {
				return concCrashExec(seed, p, c16pol(tier), true, 0.3)
			}
			res := crashExec(seed, p, c16pol(tier), judgeMode{Recovery: true, ContinueP: 0.3}, run.Options{Deferred: true})
			res.Nontrivial = res.Images >= 3
			return res
		}
	}
	Register(&Spec{
		ID: "C16", Level: "fault_enumeration",
		Rule: "C15's histories, with crash images and torn-write images taken at the file-mutation points inside Merge (quick: a seeded half of them, thorough: all); every image is mounted, opened and fully observed and must equal the model state before the Merge (Merge is logically a no-op, so there is no in-flight transaction); one run in five is a scheduled program in which Merge runs beside 2-5 tasks of View/Update transactions: an image taken inside a Merge call at event e must show the state after k write transactions in lock-grant order, k between the number acknowledged and the number granted at e; non-trivial = at least 3 distinct images from inside a Merge",
		Gen: func(r *core.Rng, tier string) *prog.Program {
			if r.Bool(0.2) || onlyConc {
				// Merge running beside writers and readers when the process dies
				cp := gen.ConcParams{Modes: []int{0, 1}, Segs: []int64{96, 128, 192, 256}, MinTasks: 2, MaxTasks: 5, MaxDBs: 1, MaxSteps: 4, DS: mergeDS, Merge: true, NoZPop: true}
				return gen.Conc(r, cp)
			}
			return mergeProgram(r, tier, mergeDS, false)
		},
		Exec: c16("quick"), ExecTier: c16,
		Deep: func(seed uint64, p *prog.Program) *RunResult {
			if p.Tasks > 0 {
				return concCrashExec(seed, p, func(r *core.Rng) *core.SnapPolicy { return deepPolicy(true, true, false)(r) }, true, 0.3)
			}
			return crashExec(seed, p, func(r *core.Rng) *core.SnapPolicy {
				sp := deepPolicy(true, true, false)(r)
				sp.Phases = map[string]bool{"merge": true}
				return sp
			}, judgeMode{Recovery: true, ContinueP: 0.3}, run.Options{Deferred: true})
		},
		Classes: classes("recovery", "open-failed", "open-panic"),
	})
}
