package check

import (
	"fmt"

	"verifsim/core"
	"verifsim/gen"
	"verifsim/prog"
	"verifsim/run"
)

// normScan makes "nothing found" uniform: an empty scan result and the
// not-found error are the same answer.
func normRes(k string, r prog.Res) string {
	if r.Panic != "" {
		return "PANIC"
	}
	if r.Err {
		return "ERR"
	}
	switch k {
	case "getall", "range", "prefix", "psearch":
		if r.V == "[]" {
			return "ERR"
		}
	}
	return r.V
}

func init() {
	Register(&Spec{
		ID: "C19", Level: "exploration",
		Rule: "one seeded program (KV-only programs: all three index modes; mixed KV/list/set/sorted-set programs: key+value mode) executed once per combination of RWMode x StartFileLoadingMode x SyncEnable (x index mode), every world with the same seed and hence the same clock trajectory and timestamps; every call's canonical result, every commit outcome and the full observation after a final reopen are compared with those of the reference combination (FileIO/FileIO/no sync/key+value); non-trivial = at least 8 worlds compared and at least one segment rotation",
		Gen: func(r *core.Rng, tier string) *prog.Program {
			maxTx := 12
			if tier == "thorough" {
				maxTx = 30
			}
			var pg *prog.Program
			if r.Bool(0.5) {
				p := gen.KVParams{Modes: []int{0}, Segs: []int64{192, 256, 300, 512}, MinTx: 3, MaxTx: maxTx, MaxOps: 3, Buckets: 1,
					TTL: r.Bool(0.5), Timestamps: r.Bool(0.3), Deletes: true, Advance: r.Bool(0.5), Views: true, Reopen: 0.1, BigP: 0.1, BadEnds: 0.1, PSearch: true, Paging: r.Bool(0.5), ManyKeys: 0.2}
				pg = gen.KV(r, p)
				pg.Tasks = 1 // marks a KV-only program (sparse mode takes part)
			} else {
				p := gen.MixParams{Modes: []int{0}, Segs: []int64{192, 256, 512}, DS: []string{"kv", "list", "set", "zset"}, MinTx: 3, MaxTx: maxTx, MaxOps: 4,
					Views: true, Reopen: 0.1, BadEnds: 0.1, BigP: 0.05, Advance: r.Bool(0.3), KVTTL: true, NoEmptyMember: true, NoSPop: true}
				pg = gen.Mix(r, p)
			}
			pg.Steps = append(pg.Steps, prog.Step{K: prog.SReopen})
			if r.Bool(0.3) {
				// the application is reconfigured between two runs: another
				// SegmentSize from a reopen on (the files written so far keep
				// their sizes)
				for i := range pg.Steps {
					if pg.Steps[i].K == prog.SReopen && r.Bool(0.6) {
						pg.Steps[i].Seg = []int64{128, 192, 256, 400, 512, 1024}[r.Intn(6)]
					}
				}
			}
			pg.Renumber()
			return pg
		},
		Exec: func(seed uint64, p *prog.Program) *RunResult {
			type world struct {
				name string
				r    *run.Runner
				obs  []prog.Res
			}
			idxModes := []int{0}
			if p.Tasks == 1 {
				idxModes = []int{0, 1, 2}
			}
			var ws []world
			var res *RunResult
			for _, idx := range idxModes {
				for rw := 0; rw < 2; rw++ {
					for load := 0; load < 2; load++ {
						for sync := 0; sync < 2; sync++ {
							q := p.Clone()
							q.Cfg.IdxMode, q.Cfg.RWMode, q.Cfg.LoadMode, q.Cfg.Sync = idx, rw, load, sync == 1
							r := run.NewRunner(seed, q, run.Options{Deferred: true})
							r.Run()
							var obs []prog.Res
							if !r.Dead && r.DB != nil {
								obs, _ = r.Observe()
							}
							r.Finish()
							if res == nil {
								res = collect(r)
							}
							ws = append(ws, world{fmt.Sprintf("idx=%d rw=%d load=%d sync=%d", idx, rw, load, sync), r, obs})
						}
					}
				}
			}
			ref := ws[0]
			for _, w := range ws[1:] {
				if len(w.r.Trace) != len(ref.r.Trace) {
					res.Viol = append(res.Viol, run.Violation{Class: "differ", StepID: -1, Op: -1, Sig: "differ/steps", Msg: fmt.Sprintf("%s executed %d steps, %s executed %d", ref.name, len(ref.r.Trace), w.name, len(w.r.Trace))})
					continue
				}
				done := false
				for i := range ref.r.Trace {
					a, b := ref.r.Trace[i], w.r.Trace[i]
					if (a.Err == "") != (b.Err == "") {
						res.Viol = append(res.Viol, run.Violation{Class: "differ", StepID: a.StepID, Op: -1, Sig: "differ/step-outcome", Msg: fmt.Sprintf("step outcome differs: %s -> %q, %s -> %q", ref.name, a.Err, w.name, b.Err)})
						done = true
						break
					}
					for j := range a.Res {
						if j >= len(b.Res) {
							break
						}
						k := ""
						for _, st := range p.Steps {
							if st.ID == a.StepID && j < len(st.Ops) {
								k = st.Ops[j].K
							}
						}
						if normRes(k, a.Res[j]) != normRes(k, b.Res[j]) {
							res.Viol = append(res.Viol, run.Violation{Class: "differ", StepID: a.StepID, Op: j, Sig: "differ/" + k, Msg: fmt.Sprintf("%s result differs: %s -> %s, %s -> %s", k, ref.name, a.Res[j].String(), w.name, b.Res[j].String())})
							done = true
							break
						}
					}
					if done {
						break
					}
				}
				if done {
					continue
				}
				if (ref.obs == nil) != (w.obs == nil) {
					res.Viol = append(res.Viol, run.Violation{Class: "differ", StepID: -1, Op: -1, Sig: "differ/final", Msg: fmt.Sprintf("only one of %s / %s could be observed at the end", ref.name, w.name)})
					continue
				}
				// the observation lists depend on the index mode (sparse skips one read)
				ro, wo := ref.r.ObsOps, w.r.ObsOps
				j := 0
				for i := range ro {
					for j < len(wo) && wo[j].String() != ro[i].String() {
						j++
					}
					if j >= len(wo) {
						break
					}
					if normRes(ro[i].K, ref.obs[i]) != normRes(wo[j].K, w.obs[j]) {
						res.Viol = append(res.Viol, run.Violation{Class: "differ", StepID: -1, Op: -1, Sig: "differ/final-" + ro[i].K, Msg: fmt.Sprintf("after the final reopen %s differs: %s -> %s, %s -> %s", ro[i].String(), ref.name, ref.obs[i].String(), w.name, w.obs[j].String())})
						break
					}
				}
			}
			res.Nontrivial = len(ws) >= 8 && rotations(res) >= 2
			res.Probes["c19-worlds"] = len(ws)
			return res
		},
		Classes: classes("differ"),
		Assume:  []string{"SPop is not issued (its choice follows Go's map iteration order and may legitimately differ between two worlds)", "an empty scan result and the not-found error count as the same answer"},
	})
}
