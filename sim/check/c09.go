package check

import (
	"verifsim/core"
	"verifsim/gen"
	"verifsim/prog"
	"verifsim/run"
)

func init() {
	c09gen := func(r *core.Rng, tier string) *prog.Program {
		maxTx := 14
		if tier == "thorough" {
			maxTx = 35
		}
		switch r.Intn(3) {
		case 0:
			// KV in every index mode, reads of never-written buckets, exact-fill segments
			p := gen.KVParams{
				Modes: []int{0, 1, 2}, Segs: []int64{94, 96, 100, 128, 141, 144, 188, 192, 256, 512},
				MinTx: 3, MaxTx: maxTx, MaxOps: 4, Buckets: 2,
				TTL: r.Bool(0.3), Deletes: true, Advance: r.Bool(0.3), Views: true,
				BigP: 0.1, BadEnds: 0.1, Restart: 0.08, Reopen: 0.1, Merge: 0.08, PSearch: true, Paging: true,
			}
			pg := gen.KV(r, p)
			if pg.Cfg.IdxMode == 2 && pg.Cfg.SegSize < 128 {
				pg.Cfg.SegSize = 128
			}
			return pg
		default:
			// all structures (key+value mode), transactions that pop/trim what they
			// already changed (no-ops at commit), merges, restarts
			p := gen.MixParams{Modes: []int{0}, Segs: []int64{128, 192, 256, 512}, DS: []string{"kv", "list", "set", "zset"},
				MinTx: 3, MaxTx: maxTx, MaxOps: 5, Views: true, Reopen: 0.1, Restart: 0.08, Merge: 0.1, BadEnds: 0.1, BigP: 0.05,
				SelfRead: r.Bool(0.6), Advance: r.Bool(0.3), KVTTL: true}
			return gen.Mix(r, p)
		}
	}
	c09 := func(tier string) func(uint64, *prog.Program) *RunResult {
		return func(seed uint64, p *prog.Program) *RunResult {
			pol := snapPolicy(tier, true, true, false)
			if p.Cfg.IdxMode == 2 {
				// known finding K3: sparse-mode index/meta files are not updated
				// atomically; crash images are taken in the RAM index modes only.
				// Sparse runs still check every Open after clean closes and after
				// dirty restarts between transactions.
				pol = nil
			}
			res := crashExec(seed, p, pol, judgeMode{Recovery: false, ContinueP: 0.3}, run.Options{Deferred: true})
			res.Nontrivial = res.Images >= 3 || (p.Cfg.IdxMode == 2 && len(res.StateHash) >= 3)
			return res
		}
	}
	Register(&Spec{
		ID: "C09", Level: "fault_enumeration",
		Rule: "seeded histories of every kind (KV in all three index modes with reads of never-written buckets and segments that fill exactly; lists/sets/sorted sets with transactions whose operations are no-ops at commit; failed and rolled-back transactions; merges; clean reopens; dirty restarts) x every RWMode and StartFileLoadingMode; crash and torn-write images at a seeded sample (thorough: all) of the file-mutation points, including those inside Open and Merge; " +
			"required: every Open in the run and Open on every image returns nil without panicking; non-trivial = at least 3 distinct images",
		Gen: c09gen, Exec: c09("quick"), ExecTier: c09,
		Deep: func(seed uint64, p *prog.Program) *RunResult {
			pol := deepPolicy(true, true, false)
			if p.Cfg.IdxMode == 2 && !hasSnapFaults(p) {
				pol = nil
			}
			return crashExec(seed, p, pol, judgeMode{Recovery: false, ContinueP: 0.3}, run.Options{Deferred: true})
		},
		Classes: classes("open-failed", "open-panic"),
		Assume:  []string{"power loss is C11's business and injected I/O errors C12's; here every completed write survives"},
	})
}
