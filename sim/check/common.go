package check

import (
	"verifsim/core"
	"verifsim/prog"
	"verifsim/run"
)

// collect turns a finished runner into a RunResult.
func collect(r *run.Runner) *RunResult {
	w := r.W
	res := &RunResult{
		Viol:    r.Viol,
		LogHash: w.Log.H,
		Probes:  w.Stats.Probes,
		Faults:  w.Stats.Faults,
		IO:      w.Stats.IOByKind,
		SimNS:   w.Stats.SimAdvance,
		ND:      r.ND,
	}
	for _, s := range r.StateAt {
		res.StateHash = append(res.StateHash, s.Hash())
	}
	// reach probe: segments filled to their last byte
	w.Disk.Walk("/", func(p string, n *core.Node) {
		if len(p) > 4 && p[len(p)-4:] == ".dat" && len(n.Ino.Data) > 0 && int64(len(n.Ino.Data)) == r.P.Cfg.SegSize {
			d := n.Ino.Data
			// the last record ends exactly at the segment end iff the final bytes are used;
			// a zero tail is also possible for an exactly filling record ending in zero bytes,
			// so this undercounts
			if d[len(d)-1] != 0 {
				res.Probes["segment-filled-to-its-last-byte"]++
			}
		}
	})
	return res
}

// seqExec runs p sequentially with the given options and returns the result.
func seqExec(seed uint64, p *prog.Program, opt run.Options) (*run.Runner, *RunResult) {
	r := run.NewRunner(seed, p, opt)
	r.Run()
	r.Finish()
	return r, collect(r)
}

func rotations(res *RunResult) int { return res.IO["trunc"] }

var _ = core.Mix

func sortStrings(xs []string) {
	for i := 1; i < len(xs); i++ {
		for j := i; j > 0 && xs[j] < xs[j-1]; j-- {
			xs[j], xs[j-1] = xs[j-1], xs[j]
		}
	}
}
