package check

import (
	"verifsim/core"
	"verifsim/gen"
	"verifsim/prog"
	"verifsim/run"
)

func init() {
	Register(&Spec{
		ID: "C02", Level: "exploration",
		Rule: "seeded single-bucket KV histories (Put, PutWithTimestamp, Delete, TTL on both sides of expiry) in HintBPTSparseIdxMode with segments of a few hundred bytes, so most keys live in sealed segments reached through the on-disk B+ tree / root index / tx-id index files, interleaved with clean reopens; after every step Get of every key, GetAll, RangeScan over and inside the key space and PrefixScan without offset/limit are compared with the ordered-map model; non-trivial = at least 2 segment rotations happened",
		Gen: func(r *core.Rng, tier string) *prog.Program {
			p := gen.KVParams{Modes: []int{2}, Segs: []int64{192, 256, 300, 400, 512}, MinTx: 4, MaxTx: 20, MaxOps: 3, Buckets: 1,
				TTL: r.Bool(0.5), Timestamps: r.Bool(0.3), Deletes: r.Bool(0.8), Advance: r.Bool(0.5), Views: true, Reopen: 0.15, NoLimitOnly: true, ManyKeys: 0.3}
			if tier == "thorough" {
				p.MaxTx = 45
			}
			return gen.KV(r, p)
		},
		Exec: func(seed uint64, p *prog.Program) *RunResult {
			_, res := seqExec(seed, p, run.Options{Deferred: true, ObserveEvery: true})
			res.Nontrivial = rotations(res) >= 3
			return res
		},
		Classes: classes("op", "observe"),
	})
}
