package check

import (
	"encoding/json"
	"fmt"
	"io"
	"os"
	"path/filepath"
)

// Finding is one entry of /verif/known_findings.json: a genuine defect of the
// system under test that is recorded rather than repaired.  It is identified by
// a witness replay (specific program + fault plan + schedule) and the
// signature of the violation it must produce; the generators avoid its
// trigger (narrowly), so any other violation is still reported.
type Finding struct {
	ID        string `json:"id"`
	Property  string `json:"property"`
	What      string `json:"what"`
	Witness   string `json:"witness"`   // path relative to /verif
	Signature string `json:"signature"` // violation signature the witness must show
	Avoid     string `json:"avoid"`     // how generators avoid the trigger
}

type KnownFile struct {
	Findings []Finding `json:"findings"`
	Fixed    []string  `json:"fixed"`
}

// VerifDir: see verifDir in cmd/nutsim.
var VerifDir = func() string {
	if d := os.Getenv("VERIF_DIR"); d != "" {
		return d
	}
	return "/verif"
}()

func LoadKnown() (*KnownFile, error) {
	b, err := os.ReadFile(filepath.Join(VerifDir, "known_findings.json"))
	if err != nil {
		if os.IsNotExist(err) {
			return &KnownFile{}, nil
		}
		return nil, err
	}
	var kf KnownFile
	if err := json.Unmarshal(b, &kf); err != nil {
		return nil, err
	}
	return &kf, nil
}

// RunKnown re-executes the witness of every listed finding of this property
// and prints a KNOWN-FINDING line for each that still reproduces.  The file is
// never written at run time.
// ReproduceHook, if set, re-executes a witness outside this process (a run that
// hangs must not hang the check); it reports (reproduced, hung).
var ReproduceHook func(rp *Replay) (bool, bool)

func RunKnown(s *Spec, out io.Writer) int {
	kf, err := LoadKnown()
	if err != nil {
		fmt.Fprintln(os.Stderr, "known_findings.json:", err)
		return 0
	}
	n := 0
	for _, f := range kf.Findings {
		if f.Property != s.ID {
			continue
		}
		rp, err := ReadReplay(filepath.Join(VerifDir, f.Witness))
		if err != nil {
			fmt.Fprintf(os.Stderr, "known finding %s: cannot read witness: %v\n", f.ID, err)
			continue
		}
		rp.Prop = s.ID
		if f.Signature != "" {
			rp.Violation.Sig = f.Signature
		}
		var ok, hung bool
		if ReproduceHook != nil {
			ok, hung = ReproduceHook(rp)
		} else {
			ok, _ = Reproduce(rp)
		}
		if hung {
			fmt.Fprintf(out, "note: the witness of listed finding %s (property %s) does not return any more (%s); nothing is suppressed\n", f.ID, s.ID, f.Witness)
			continue
		}
		if ok {
			fmt.Fprintf(out, "KNOWN-FINDING: property=%s %s [%s, witness %s]\n", s.ID, f.What, f.ID, f.Witness)
			n++
		} else {
			fmt.Fprintf(out, "note: listed finding %s (property %s) no longer reproduces from %s; nothing is suppressed\n", f.ID, s.ID, f.Witness)
		}
	}
	return n
}

// IsKnownSig reports whether a violation signature is that of a listed finding
// of this property (used for data races, which are identified by their racing
// pair of functions and cannot be avoided by a generator predicate).
func IsKnownSig(s *Spec, sig string) bool {
	kf, err := LoadKnown()
	if err != nil {
		return false
	}
	for _, f := range kf.Findings {
		if f.Property == s.ID && f.Signature == sig {
			return true
		}
	}
	return false
}
