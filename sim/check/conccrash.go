package check

import (
	"fmt"
	"os"
	"time"

	"verifsim/core"
	"verifsim/model"
	"verifsim/prog"
	"verifsim/run"
	"verifsim/simmmap"
)

// concCrashExec runs a scheduled single-database program (writers, readers,
// optionally a Merge task) while crash / torn images are taken at file-mutation
// points, and judges every image against the serial history:
//
// The write transactions are serialised by the database lock, so at any instant
// the transactions whose effects may be on disk form a prefix of the lock-grant
// order.  An image taken at event number e, when the latest acknowledged write
// transaction had grant stamp a, must — after Open — show the model state after
// the first k write transactions in grant order for some k with
// #(grant <= a) <= k <= #(grant <= e): everything acknowledged, and beyond
// that only whole transactions that had at least been granted the lock.
func concCrashExec(seed uint64, p *prog.Program, pol func(r *core.Rng) *core.SnapPolicy, mergeOnly bool, contP float64) *RunResult {
	p.DBs = 1
	c := run.NewConcRunner(seed, p, func(w *core.World) {
		if !hasSnapFaults(p) && pol != nil {
			sp := pol(core.NewRng(seed).Derive("snap"))
			if mergeOnly {
				sp.Phases = map[string]bool{"merge": true}
			}
			w.Faults.Policy = sp
		}
	})
	rng := core.NewRng(seed).Derive("sched")
	switchP := []float64{1, 1, 0.5, 0.2}[rng.Intn(4)]
	c.Run(rng, switchP)
	res := &RunResult{ND: progND(p), Viol: c.Viol, LogHash: c.W.Log.H, Probes: c.W.Stats.Probes, Faults: c.W.Stats.Faults, IO: c.W.Stats.IOByKind, SimNS: c.W.Stats.SimAdvance}
	res.Witness = map[string]core.Fault{}
	if c.Sched == nil {
		return res
	}
	res.Yields, res.Switches = c.W.Stats.Yields, c.W.Stats.Switches
	res.Schedules = schedHash(c.Sched.Trace)
	res.Trace = c.Sched.Trace
	if c.Sched.Capped {
		res.Inconcl++
		return res
	}
	if c.Sched.Deadlock != "" {
		return res
	}
	for _, v := range c.Viol {
		if v.Class == "panic" {
			return res
		}
	}
	// the serial history: model states after each prefix of the granted write transactions
	var writes []*run.TxRec
	for _, r := range c.ByGrant(0) {
		if r.Kind == prog.STx {
			writes = append(writes, r)
		}
	}
	now := c.W.Clock.Unix()
	states := []*model.State{model.New()}
	m := states[0]
	// read-only transactions take part in the replay (their results must be
	// explained too, or the reference is not trustworthy)
	wi := 0
	explained := true
	for _, r := range c.ByGrant(0) {
		nm, err := applyTx(m, r, now)
		if err != nil {
			explained = false
			break
		}
		m = nm
		if r.Kind == prog.STx {
			wi++
			states = append(states, m)
		}
	}
	if !explained {
		// the history itself is not explained by the lock-grant order: that is
		// C14's business; without a reference only Open is judged
		res.Probes["conc-crash-history-unexplained"]++
		states = nil
	}
	main := core.W
	defer core.Use(main)
	perSig := map[string]int{}
	overlapImages := 0
	for _, sn := range c.W.Faults.Snaps {
		if os.Getenv("NUTSIM_DEBUG") != "" {
			fmt.Fprintf(os.Stderr, "snap kind=%s fmp=%d class=%s path=%s arg=%d acked=%d event=%d phase=%s\n", sn.Kind, sn.FMP, sn.Class, sn.Path, sn.Arg, sn.Acked, sn.InFlight, sn.Phase)
		}
		res.Images++
		lo, hi := 0, 0
		for _, r := range writes {
			if r.Grant <= int64(sn.Acked) {
				lo++
			}
			if r.Grant <= int64(sn.InFlight) {
				hi++
			}
		}
		if hi > lo {
			overlapImages++
		}
		for _, v := range judgeConcImage(c, sn, states, lo, hi, contP) {
			if perSig[v.Sig] >= 2 {
				continue
			}
			perSig[v.Sig]++
			if _, ok := res.Witness[v.Sig]; !ok {
				res.Witness[v.Sig] = sn.AsFault()
			}
			res.Viol = append(res.Viol, v)
		}
	}
	core.Use(main)
	res.Probes["conc-crash-images"] += res.Images
	res.Probes["conc-crash-images-with-tx-in-flight"] += overlapImages
	res.Nontrivial = res.Images >= 3 && res.Switches > 2
	return res
}

func judgeConcImage(c *run.ConcRunner, sn *core.Snapshot, states []*model.State, lo, hi int, contP float64) (viol []run.Violation) {
	w := core.NewWorld(core.Mix(c.W.Seed, sn.Digest))
	w.Clock.Tick = c.P.Cfg.Tick
	w.Clock.SetNS(sn.ClockNS + int64(time.Millisecond))
	w.Disk.Mount(sn.Image)
	core.Use(w)
	core.ResetSeqLocks()
	simmmap.Reset()
	where := fmt.Sprintf("%s image of a scheduled run at event %d, file-mutation point %d (%s %s arg=%d, phase=%q; %d write transactions acknowledged, %d granted)", sn.Kind, sn.InFlight, sn.FMP, sn.Class, sn.Path, sn.Arg, sn.Phase, lo, hi)
	add := func(class, sig, format string, args ...interface{}) {
		viol = append(viol, run.Violation{Class: class, StepID: -1, Op: -1, Msg: where + ": " + fmt.Sprintf(format, args...), Sig: class + "/" + sig})
	}
	w.Phase = "recovery"
	db, err, pan := run.OpenDB(c.Opts[0])
	if pan != "" {
		add("open-panic", "Open", "Open panicked: %s", pan)
		return
	}
	if err != nil {
		add("open-failed", errClass(err.Error()), "Open failed: %v", err)
		return
	}
	defer func() {
		if db != nil {
			run.Safe(func() { db.Close() })
		}
	}()
	defer func() {
		if len(viol) == 0 && contP > 0 && core.NewRng(sn.Digest).Bool(contP) {
			core.Use(w)
			db = continueAfterRecovery(db, c.Opts[0], c.P.Cfg.SegSize, add)
			c.W.Stats.Probes["images-continued-and-reopened"]++
		}
	}()
	if states == nil {
		return
	}
	rr := &run.Runner{W: w, P: c.P, DB: db, DBOpt: c.Opts[0], ObsOps: c.Obs}
	got, bad := rr.Observe()
	if bad != "" {
		add("recovery", "observe-failed", "observation after recovery failed: %s", bad)
		return
	}
	now := w.Clock.Unix()
	var first error
	for k := lo; k <= hi && k < len(states); k++ {
		e := states[k].CheckObservation(c.Obs, got, now)
		if e == nil {
			if k > lo {
				c.W.Stats.Probes["recovered-with-inflight-tx"]++
			}
			return
		}
		if first == nil {
			first = e
		}
	}
	add("recovery", "mismatch", "recovered state is none of the states after %d..%d write transactions in lock-grant order (after %d: %v)", lo, hi, lo, first)
	return
}
