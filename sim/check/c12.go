package check

import (
	"os"

	"verifsim/core"
	"verifsim/gen"
	"verifsim/prog"
	"verifsim/run"
)

func init() {
	c12gen := func(r *core.Rng, tier string) *prog.Program {
		maxTx := 12
		if tier == "thorough" {
			maxTx = 30
		}
		var pg *prog.Program
		if r.Bool(0.4) {
			p := gen.KVParams{Modes: c12modes(), Segs: []int64{96, 128, 144, 192, 256, 512}, MinTx: 3, MaxTx: maxTx, MaxOps: 4, Buckets: 2,
				TTL: r.Bool(0.3), Deletes: true, Advance: r.Bool(0.3), Views: true, BigP: 0.2, BadEnds: 0.25, Reopen: 0.1}
			if r.Bool(0.5) {
				// what a failed commit left behind (records on disk, in-memory
				// bookkeeping) must not be picked up by a later Merge in the
				// same process either (key/value programs only: K5)
				p.Merge = 0.15
			}
			pg = gen.KV(r, p)
		} else {
			p := gen.MixParams{Modes: []int{0}, Segs: []int64{128, 192, 256, 512}, DS: []string{"kv", "list", "set", "zset"},
				MinTx: 3, MaxTx: maxTx, MaxOps: 4, Views: true, ViewWrites: true, AfterP: 0.2, Reopen: 0.1, BadEnds: 0.25, BigP: 0.2, NoEmptyMember: true, KVTTL: r.Bool(0.3)}
			pg = gen.Mix(r, p)
		}
		// faulty batch: one injected I/O fault inside the commit of a chosen transaction
		if r.Bool(0.6) {
			var txs []int
			for i, st := range pg.Steps {
				if st.K == prog.STx && (st.End == "" || st.End == "manual") {
					txs = append(txs, i)
				}
			}
			if len(txs) > 0 {
				kinds := []string{"eio", "short", "enospc", "syncfail-durable", "syncfail-lost", "emfile", "truncfail"}
				kind := kinds[r.Intn(len(kinds))]
				target := txs[r.Intn(len(txs))]
				f := core.Fault{StepID: pg.Steps[target].ID, Nth: r.Intn(5)}
				switch kind {
				case "eio", "enospc":
					f.Class, f.Kind = "write", kind
				case "short":
					f.Class, f.Kind, f.Arg = "write", "short", 1+r.Intn(60)
				case "syncfail-durable", "syncfail-lost":
					// the outcome of this transaction is in doubt: make it the last write
					target = txs[len(txs)-1]
					f.StepID = pg.Steps[target].ID
					f.Class, f.Kind = "sync", kind
					if pg.Cfg.RWMode == 1 {
						f.Class = "msync"
					}
					pg.Cfg.Sync = true
					f.Nth = r.Intn(3)
					// nothing may be written after a transaction whose outcome is in doubt
					kept := pg.Steps[:target+1]
					for _, st := range pg.Steps[target+1:] {
						if st.K != prog.STx && st.K != prog.SMerge {
							kept = append(kept, st)
						}
					}
					pg.Steps = kept
				case "emfile":
					f.Class, f.Kind, f.Nth = "open", "emfile", r.Intn(2)
				case "truncfail":
					f.Class, f.Kind, f.Nth = "trunc", "enospc", 0
				}
				pg.Faults = append(pg.Faults, f)
			}
		}
		maxID := 0
		for _, st := range pg.Steps {
			if st.ID > maxID {
				maxID = st.ID
			}
		}
		pg.Steps = append(pg.Steps, prog.Step{K: prog.SReopen, ID: maxID + 1})
		return pg
	}
	Register(&Spec{
		ID: "C12", Level: "fault_enumeration",
		Rule: "seeded histories in which transactions end by function error, explicit Rollback, an oversized entry at any position, or one injected I/O fault inside their commit (write error, short write with ENOSPC, sync/msync error with the data durable or lost, open error or truncate error in the rotation the commit triggers); read-only transactions that call mutating APIs; calls on the handle of a finished transaction; Merge steps after failed transactions in a quarter of the key/value programs; " +
			"after every step and after the reopens the full observation must equal the model in which those transactions never happened (for a sync error after a complete write: all-or-nothing), and calls on finished transactions must return errors; fault-free and faulty programs are both generated; non-trivial = at least one transaction ended without committing or a fault fired",
		Gen: c12gen,
		Exec: func(seed uint64, p *prog.Program) *RunResult {
			r, res := seqExec(seed, p, run.Options{Deferred: true, ObserveEvery: true})
			failed := 0
			for _, t := range r.Trace {
				if t.Err != "" {
					failed++
				}
			}
			res.Nontrivial = failed > 0 || len(r.W.Faults.Fired) > 0
			if r.Dead {
				res.Probes["db-wedged-or-dead-after-fault"]++
			}
			return res
		},
		Classes: classes("observe", "op", "after-closed"),
		Assume: []string{"after an injected sync error the transaction may be visible entirely or not at all, independently in the process and after reopen (as the property states)",
			"whether a database keeps accepting writes after an injected I/O error is not part of the property (counted as a probe only)"},
	})
}

func c12modes() []int {
	if os.Getenv("NUTSIM_C12_SPARSE") != "" { // experiments only
		return []int{2}
	}
	return []int{0, 1}
}
