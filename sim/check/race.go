package check

import (
	"os"
	"path/filepath"
	"sort"
	"strings"

	"verifsim/run"
)

// raceWatcher reads the race detector's log (GORACE=log_path=...) incrementally
// so that reports can be attributed to the run during which they were printed.
type raceWatcher struct {
	prefix string
	off    map[string]int64
}

var theRaceWatcher *raceWatcher

// globalRaceWatcher returns the process-wide watcher (nil outside race-detector runs).
func globalRaceWatcher() *raceWatcher {
	if theRaceWatcher == nil {
		theRaceWatcher = newRaceWatcher()
	}
	return theRaceWatcher
}

func newRaceWatcher() *raceWatcher {
	p := os.Getenv("NUTSIM_RACE_LOG")
	if p == "" {
		return nil
	}
	return &raceWatcher{prefix: p, off: map[string]int64{}}
}

// poll returns the data-race reports that appeared since the last call and
// count as the system's own: both accesses have their innermost non-runtime
// frame in github.com/xujiajun/nutsdb (harness and shim frames are discarded:
// their shared state is legitimately unsynchronised as far as the blinded
// detector can tell).
func (rw *raceWatcher) poll() (viol []run.Violation, total int) {
	files, _ := filepath.Glob(rw.prefix + "*")
	for _, f := range files {
		b, err := os.ReadFile(f)
		if err != nil {
			continue
		}
		start := rw.off[f]
		if int64(len(b)) <= start {
			continue
		}
		text := string(b[start:])
		// only consume complete reports
		last := strings.LastIndex(text, "==================\n")
		if last < 0 {
			continue
		}
		rw.off[f] = start + int64(last) + int64(len("==================\n"))
		for _, blk := range strings.Split(text[:last], "==================\n") {
			if !strings.Contains(blk, "WARNING: DATA RACE") {
				continue
			}
			total++
			fr := innermostFrames(blk)
			if len(fr) < 2 {
				continue
			}
			own := true
			for _, fn := range fr[:2] {
				if !strings.HasPrefix(fn, "github.com/xujiajun/nutsdb") {
					own = false
				}
			}
			if !own {
				continue
			}
			pair := []string{shortFn(fr[0]), shortFn(fr[1])}
			sort.Strings(pair)
			sig := "race/" + pair[0] + "~" + pair[1]
			viol = append(viol, run.Violation{Class: "race", StepID: -1, Op: -1, Sig: sig, Msg: "data race between " + pair[0] + " and " + pair[1] + "\n" + trimReport(blk)})
		}
	}
	return
}

func shortFn(fn string) string {
	fn = strings.TrimPrefix(fn, "github.com/xujiajun/nutsdb")
	fn = strings.TrimPrefix(fn, "/")
	if i := strings.Index(fn, ".func"); i > 0 {
		fn = fn[:i]
	}
	return fn
}

// innermostFrames returns, for each access section of a report, the first
// frame that is not in the Go runtime / sync / the simulator's lock shim.
func innermostFrames(blk string) []string {
	var out []string
	lines := strings.Split(blk, "\n")
	for i := 0; i < len(lines); i++ {
		l := lines[i]
		if !(strings.HasPrefix(l, "Write at ") || strings.HasPrefix(l, "Read at ") || strings.HasPrefix(l, "Previous write at ") || strings.HasPrefix(l, "Previous read at ") ||
			strings.HasPrefix(l, "Atomic write at ") || strings.HasPrefix(l, "Atomic read at ") || strings.HasPrefix(l, "Previous atomic ")) {
			continue
		}
		for j := i + 1; j < len(lines); j++ {
			f := lines[j]
			if strings.TrimSpace(f) == "" {
				break
			}
			if !strings.HasPrefix(f, "  ") || strings.HasPrefix(f, "      ") {
				continue // file:line lines
			}
			fn := strings.TrimSpace(f)
			if k := strings.LastIndex(fn, "("); k > 0 {
				fn = fn[:k]
			}
			if strings.HasPrefix(fn, "runtime.") || strings.HasPrefix(fn, "sync.") || strings.HasPrefix(fn, "sync/atomic.") || strings.HasPrefix(fn, "internal/") {
				continue
			}
			out = append(out, fn)
			break
		}
	}
	return out
}

func trimReport(blk string) string {
	lines := strings.Split(blk, "\n")
	if len(lines) > 28 {
		lines = lines[:28]
	}
	return strings.Join(lines, "\n")
}
