package check

import (
	"fmt"
	"os"
	"strconv"
	"strings"
	"time"

	"verifsim/core"
	"verifsim/gen"
	"verifsim/model"
	"verifsim/prog"
	"verifsim/run"
	"verifsim/simmmap"
)

// genuinePairs collects, per bucket and key, every value any Put of the
// program stored: a read may legitimately expose an older genuine version when
// a newer record is damaged, but never anything else.
func genuinePairs(p *prog.Program) map[string]map[string]map[string]bool {
	g := map[string]map[string]map[string]bool{}
	for _, st := range p.Steps {
		if st.K != prog.STx {
			continue
		}
		for _, op := range st.Ops {
			if op.K != "put" && op.K != "putts" {
				continue
			}
			if g[op.B] == nil {
				g[op.B] = map[string]map[string]bool{}
			}
			if g[op.B][op.Key] == nil {
				g[op.B][op.Key] = map[string]bool{}
			}
			g[op.B][op.Key][model.ValueOf(op)] = true
		}
	}
	return g
}

// parsePairs decodes the canonical ["k"="v",...] rendering.
func parsePairs(s string) ([][2]string, bool) {
	s = strings.TrimSpace(s)
	if len(s) < 2 || s[0] != '[' || s[len(s)-1] != ']' {
		// a single "k"="v"
		return parsePairs("[" + s + "]")
	}
	s = s[1 : len(s)-1]
	var out [][2]string
	for len(s) > 0 {
		k, rest, ok := cutQuoted(s)
		if !ok || !strings.HasPrefix(rest, "=") {
			return nil, false
		}
		v, rest2, ok := cutQuoted(rest[1:])
		if !ok {
			return nil, false
		}
		out = append(out, [2]string{k, v})
		s = strings.TrimPrefix(rest2, ",")
	}
	return out, true
}

func cutQuoted(s string) (string, string, bool) {
	if len(s) == 0 || s[0] != '"' {
		return "", s, false
	}
	for i := 1; i < len(s); i++ {
		if s[i] == '\\' {
			i++
			continue
		}
		if s[i] == '"' {
			u, err := strconv.Unquote(s[:i+1])
			if err != nil {
				return "", s, false
			}
			return u, s[i+1:], true
		}
	}
	return "", s, false
}

// corrupt applies one seeded corruption to the image: a single bit flip inside
// the used part of a record-bearing file, or a truncation of such a file.
type damage struct {
	what string
	path string // damaged file
	pos  int    // first damaged byte
	data []byte // the file's content before the damage
}

func corrupt(root *core.Node, r *core.Rng) *damage {
	type cand struct {
		path string
		n    *core.Node
	}
	var cs []cand
	var walk func(p string, n *core.Node)
	walk = func(p string, n *core.Node) {
		if n.Dir {
			for _, e := range n.Ents.Nodes() {
				walk(p+"/"+e.Name, e)
			}
			return
		}
		if strings.HasSuffix(n.Name, ".dat") || strings.HasSuffix(n.Name, ".bptridx") || strings.HasSuffix(n.Name, ".meta") {
			if len(n.Ino.Data) > 0 {
				cs = append(cs, cand{p, n})
			}
		}
	}
	walk("", root)
	if len(cs) == 0 {
		return nil
	}
	c := cs[r.Intn(len(cs))]
	data := c.n.Ino.Data
	used := 0
	for i := len(data) - 1; i >= 0; i-- {
		if data[i] != 0 {
			used = i + 1
			break
		}
	}
	if used == 0 {
		return nil
	}
	if r.Bool(0.2) {
		cut := r.Intn(used)
		c.n.Ino.Data = append([]byte(nil), data[:cut]...)
		c.n.Ino.Synced = c.n.Ino.Data
		// segments are re-extended with zeros when they are opened, so the
		// first byte that really changes is the first non-zero byte at or
		// after the cut
		first := cut
		for first < len(data) && data[first] == 0 {
			first++
		}
		return &damage{fmt.Sprintf("truncate %s to %d bytes", c.path, cut), c.path, first, data}
	}
	pos := r.Intn(used)
	// Flips in length fields are included: the reader must not trust a length
	// before the checksum (an Open that allocates more than the simulated
	// machine's memory counts as an Open that died, see run.OpenDB).
	bit := uint(r.Intn(8))
	nd := append([]byte(nil), data...)
	nd[pos] ^= 1 << bit
	c.n.Ino.Data = nd
	c.n.Ino.Synced = nd
	return &damage{fmt.Sprintf("flip bit %d of byte %d of %s", bit, pos, c.path), c.path, pos, data}
}

type datRec struct {
	off, size   int
	bucket, key string
	txid        uint64
	val         string
	flag        int
	status      int
	ds          int
	ttl         uint32
	ts          uint64
}

// parseDat lists the records of a data segment with a throw-away parser of the
// documented layout.  It is used only to work out which keys a damage can
// legitimately affect, never to judge what nutsdb returns.
func parseDat(data []byte) []datRec {
	u32 := func(b []byte) int { return int(b[0]) | int(b[1])<<8 | int(b[2])<<16 | int(b[3])<<24 }
	var out []datRec
	off := 0
	for off+42 <= len(data) {
		ks, vs, bs := u32(data[off+12:]), u32(data[off+16:]), u32(data[off+26:])
		size := 42 + ks + vs + bs
		zero := true
		for _, b := range data[off : off+42] {
			if b != 0 {
				zero = false
				break
			}
		}
		if zero || off+size > len(data) {
			break
		}
		var tx uint64
		for i := 0; i < 8; i++ {
			tx |= uint64(data[off+34+i]) << (8 * i)
		}
		var ts uint64
		for i := 0; i < 8; i++ {
			ts |= uint64(data[off+4+i]) << (8 * i)
		}
		out = append(out, datRec{off: off, size: size, bucket: string(data[off+42 : off+42+bs]), key: string(data[off+42+bs : off+42+bs+ks]), txid: tx,
			val: string(data[off+42+bs+ks : off+size]), flag: int(data[off+20]) | int(data[off+21])<<8, status: int(data[off+30]) | int(data[off+31])<<8,
			ds: int(data[off+32]) | int(data[off+33])<<8, ttl: uint32(u32(data[off+22:])), ts: ts})
		off += size
	}
	return out
}

// affectedKeys returns the bucket/key pairs a damage at d.pos may legitimately
// change: those with a record at or after the damaged record in that file
// (recovery and Merge stop scanning a file at the first bad record), plus the
// keys of every record that belongs to the same transaction as one of those
// (a transaction whose commit mark is lost is dropped as a whole).
func affectedKeys(root *core.Node, d *damage) map[string]bool {
	aff := map[string]bool{}
	if !strings.HasSuffix(d.path, ".dat") {
		return nil // index/meta files: no per-key statement
	}
	txs := map[uint64]bool{}
	for _, rec := range parseDat(d.data) {
		if rec.off+rec.size > d.pos {
			aff[rec.bucket+"\x00/"+rec.key] = true
			txs[rec.txid] = true
		}
	}
	var walk func(n *core.Node)
	walk = func(n *core.Node) {
		if n.Dir {
			for _, e := range n.Ents.Nodes() {
				walk(e)
			}
			return
		}
		if strings.HasSuffix(n.Name, ".dat") {
			data := n.Ino.Data
			for _, rec := range parseDat(data) {
				if txs[rec.txid] {
					aff[rec.bucket+"\x00/"+rec.key] = true
				}
			}
		}
	}
	walk(root)
	for _, rec := range parseDat(d.data) {
		if txs[rec.txid] {
			aff[rec.bucket+"\x00/"+rec.key] = true
		}
	}
	return aff
}

func init() {
	Register(&Spec{
		ID: "C21", Level: "fault_enumeration",
		Rule: "part 1 (round trip): seeded KV histories whose keys, values and buckets have all lengths from empty to segment-filling, binary bytes, TTLs over the uint32 range and explicit timestamps, in all three index modes, are read back after clean reopens (RAM modes rebuild everything from the stored records, key-only and sparse mode read every value back through stored offsets) and compared with the model; " +
			"part 2 (corruption): the closed directory is then damaged by one seeded fault at a time — a single bit flipped inside the used bytes of a .dat / .bptridx / .meta file, or such a file truncated — and for each damaged copy Open, every read, Merge and a second reopen are exercised: an error or an absent key is fine, but every pair that is returned must be byte-for-byte a pair some Put of the history stored for that bucket and key; non-trivial = at least 3 damaged copies were opened and read",
		Gen: func(r *core.Rng, tier string) *prog.Program {
			p := gen.KVParams{Mega: 0.003, Modes: []int{0, 1, 2}, Segs: []int64{256, 512, 1024}, MinTx: 3, MaxTx: 14, MaxOps: 3, Buckets: 2,
				TTL: true, Timestamps: true, Deletes: true, Advance: r.Bool(0.3), Reopen: 0.15, ManyKeys: 0.1}
			if tier == "thorough" {
				p.MaxTx = 30
			}
			pg := gen.KV(r, p)
			if pg.Cfg.IdxMode == 2 {
				// known finding K6 (sparse mode indexes by bucket+key): equal-length bucket names
				m := map[string]string{"b": "bx", "ba": "by", "a": "ax", "ab": "ay"}
				for si := range pg.Steps {
					for oi := range pg.Steps[si].Ops {
						if nb, ok := m[pg.Steps[si].Ops[oi].B]; ok {
							pg.Steps[si].Ops[oi].B = nb
						}
					}
				}
			}
			// widen the field values: long and empty values, binary bytes, extreme TTLs
			for si := range pg.Steps {
				for oi := range pg.Steps[si].Ops {
					op := &pg.Steps[si].Ops[oi]
					if op.K != "put" && op.K != "putts" {
						continue
					}
					switch r.Intn(8) {
					case 0:
						op.Big = r.Range(1, int(pg.Cfg.SegSize)-60-len(op.B)-len(op.Key))
					case 1:
						op.Val = op.Val + "\x00\x01ÿ\x7f"
					case 2:
						op.TTL = []uint32{1 << 31, 1<<32 - 1, 1 << 16, 3600}[r.Intn(4)]
					}
				}
			}
			pg.Steps = append(pg.Steps, prog.Step{K: prog.SReopen})
			pg.Renumber()
			return pg
		},
		Exec: func(seed uint64, p *prog.Program) *RunResult {
			r := run.NewRunner(seed, p, run.Options{Deferred: true, ObserveEvery: true})
			r.Run()
			dead := r.Dead
			r.Finish()
			res := collect(r)
			if dead {
				return res
			}
			// the closed directory
			r.W.BeginStep(-2)
			r.W.SnapNow("crash", 0)
			r.W.EndStep()
			if len(r.W.Faults.Snaps) == 0 {
				return res
			}
			img := r.W.Faults.Snaps[len(r.W.Faults.Snaps)-1].Image
			genuine := genuinePairs(p)
			main := core.W
			defer core.Use(main)
			rng := core.NewRng(seed).Derive("corrupt")
			n := 6
			opened := 0
			for i := 0; i < n; i++ {
				w := core.NewWorld(core.Mix(seed, uint64(i)))
				w.Clock.SetNS(r.W.Clock.NowNS() + int64(time.Millisecond))
				w.Disk.Mount(img)
				dmg := corrupt(w.Disk.Root, rng)
				if dmg == nil {
					continue
				}
				what := dmg.what
				aff := affectedKeys(w.Disk.Root, dmg)
				if p.Cfg.IdxMode == 2 {
					// sparse mode reaches records through on-disk B+ tree leaves: a
					// damaged record can make its leaf neighbours unreadable (an
					// error, which the statement allows), so the per-key statement is
					// made for the RAM index modes only
					aff = nil
				}
				if os.Getenv("NUTSIM_DEBUG") != "" {
					fmt.Printf("DEBUG damage %s\naff=%v\n%s", what, aff, core.TreeDigest(w.Disk.Root))
					w.Disk.Walk("/", func(p string, n *core.Node) {
						if strings.HasSuffix(p, ".dat") {
							for _, rec := range parseDat(n.Ino.Data) {
								fmt.Printf("  %s off=%d size=%d b=%q k=%q tx=%d status=%d flag=%d ttl=%d ts=%d now=%d ns=%d\n", p, rec.off, rec.size, rec.bucket, rec.key, rec.txid, n.Ino.Data[rec.off+30], n.Ino.Data[rec.off+20], rec.ttl, rec.ts, w.Clock.Unix(), w.Clock.NowNS())
							}
						}
					})
				}
				res.Faults["corruption"]++
				core.Use(w)
				core.ResetSeqLocks()
				simmmap.Reset()
				add := func(sig, format string, args ...interface{}) {
					res.Viol = append(res.Viol, run.Violation{Class: "corrupt", StepID: -1, Op: i, Sig: "corrupt/" + sig, Msg: what + ": " + fmt.Sprintf(format, args...)})
				}
				judge := func(rr *run.Runner, when string) bool {
					got, bad := rr.Observe()
					if bad != "" {
						if strings.HasPrefix(bad, "panic") {
							add("panic", "%s: %s", when, bad)
						}
						return false
					}
					if aff != nil && when != "after Merge" {
						// RAM index modes: the contents must be exactly those of the
						// stored records with the damaged record absent (and, with it,
						// either everything after it in that file, or nothing else)
						var firstErr string
						okAny := false
						for variant := 0; variant < 2 && !okAny; variant++ {
							exp := expectedAfterDamage(img, dmg, variant, w.Clock.Unix())
							if os.Getenv("NUTSIM_DEBUG") != "" {
								for k, v := range exp {
									if v == nil {
										fmt.Printf("   exp[%d] %q = <absent>\n", variant, k)
									} else {
										fmt.Printf("   exp[%d] %q = %q\n", variant, k, *v)
									}
								}
								fmt.Printf("   now=%d ns=%d when=%s\n", w.Clock.Unix(), w.Clock.NowNS(), when)
							}
							bad := ""
							for j, op := range rr.ObsOps {
								if op.K != "get" {
									continue
								}
								want := exp[op.B+"\x00/"+op.Key]
								g := got[j]
								switch {
								case g.Panic != "":
									bad = op.String() + " panicked"
								case want == nil && !g.Err:
									bad = fmt.Sprintf("%s returned %s, want not found", op.String(), g.V)
								case want != nil && (g.Err || g.V != model.Q(op.Key)+"="+model.Q(*want)):
									bad = fmt.Sprintf("%s returned %s, want %q", op.String(), g.String(), *want)
								}
								if bad != "" {
									break
								}
							}
							if bad == "" {
								okAny = true
							} else if firstErr == "" {
								firstErr = bad
							}
						}
						if !okAny {
							add("not-just-absent", "%s: the contents are not those of the stored records with the damaged record (and what follows it in its file) treated as absent: %s", when, firstErr)
							return false
						}
					}
					for j, op := range rr.ObsOps {
						g := got[j]
						if g.Panic != "" {
							add("panic", "%s: %s panicked: %s", when, op.String(), g.Panic)
							return false
						}

						if g.Err || prog.DS(op.K) != "kv" {
							continue
						}
						pairs, ok := parsePairs(g.V)
						if !ok {
							add("garbage", "%s: %s returned something that is not a list of records: %s", when, op.String(), g.V)
							return false
						}
						for _, kv := range pairs {
							if !genuine[op.B][kv[0]][kv[1]] {
								add("served", "%s: %s returned %q=%q, which no Put of the history stored for bucket %q", when, op.String(), kv[0], kv[1], op.B)
								return false
							}
						}
					}
					return true
				}
				rr := run.NewRunnerOnWorld(w, p, run.Options{Deferred: true})
				db, err, pan := run.OpenDB(rr.DBOpt)
				if pan != "" {
					add("panic", "Open panicked: %s", pan)
					continue
				}
				if err != nil {
					res.Probes["corrupt-open-refused"]++
					continue
				}
				opened++
				rr.DB = db
				ok := judge(rr, "after Open")
				if ok && p.Cfg.IdxMode != 2 {
					var merr error
					if mp := run.Safe(func() { merr = db.Merge() }); mp != "" {
						add("panic", "Merge panicked: %s", mp)
						ok = false
					} else {
						_ = merr
						ok = judge(rr, "after Merge")
					}
				}
				run.Safe(func() { db.Close() })
				if ok {
					w.Clock.Advance(time.Millisecond)
					db2, err2, pan2 := run.OpenDB(rr.DBOpt)
					if pan2 != "" {
						add("panic", "second Open panicked: %s", pan2)
					} else if err2 == nil {
						rr.DB = db2
						judge(rr, "after a second Open")
						run.Safe(func() { db2.Close() })
					}
				}
			}
			res.Images = opened
			res.Probes["corrupt-opened"] += opened
			res.Nontrivial = opened >= 3
			return res
		},
		Classes: classes("corrupt", "op", "observe"),
		Assume: []string{"B+ tree node files (.bptidx, .bpttxid) carry no checksum and are not in the statement: they are not damaged", "one damage at a time",
			"round trip over field values the public API cannot produce (arbitrary flag/status/structure codes) is a pure function of its input and is not claimed"},
	})
}

// expectedAfterDamage replays the stored records the way a Bitcask-style
// recovery must see them once one record is damaged: the damaged record is
// absent, and the records after it in the same file are either absent too
// (the scan stops at the first bad record: variant 0) or still there (variant
// 1).  Records of transactions without a surviving commit mark do not count.
// The result maps bucket\x00/key to the live value at second now ("" + false
// = absent).  Only key/value records are replayed.
func expectedAfterDamage(root *core.Node, d *damage, variant int, now int64) map[string]*string {
	type frec struct {
		file int
		rec  datRec
	}
	var all []frec
	var walk func(p string, n *core.Node)
	walk = func(p string, n *core.Node) {
		if n.Dir {
			for _, e := range n.Ents.Nodes() {
				walk(p+"/"+e.Name, e)
			}
			return
		}
		if !strings.HasSuffix(n.Name, ".dat") {
			return
		}
		id, err := strconv.Atoi(strings.TrimSuffix(n.Name, ".dat"))
		if err != nil {
			return
		}
		data := n.Ino.Data
		damaged := p == d.path
		if damaged {
			data = d.data
		}
		for _, rec := range parseDat(data) {
			if damaged {
				hit := rec.off+rec.size > d.pos && rec.off <= d.pos
				after := rec.off > d.pos
				if hit || (after && variant == 0) {
					continue
				}
				if rec.off+rec.size > d.pos && !hit && !after {
					continue
				}
			}
			all = append(all, frec{id, rec})
		}
	}
	walk("", root)
	// file order, then offset
	for i := 1; i < len(all); i++ {
		for j := i; j > 0 && (all[j].file < all[j-1].file || (all[j].file == all[j-1].file && all[j].rec.off < all[j-1].rec.off)); j-- {
			all[j], all[j-1] = all[j-1], all[j]
		}
	}
	committed := map[uint64]bool{}
	for _, f := range all {
		if f.rec.status == 1 {
			committed[f.rec.txid] = true
		}
	}
	out := map[string]*string{}
	for _, f := range all {
		r := f.rec
		if !committed[r.txid] || r.ds != 2 {
			continue
		}
		k := r.bucket + "\x00/" + r.key
		if r.flag == 0 {
			out[k] = nil
			continue
		}
		if r.ttl != 0 && uint64(now) >= r.ts+uint64(r.ttl) {
			out[k] = nil
			continue
		}
		v := r.val
		out[k] = &v
	}
	return out
}
