package check

import (
	"os"

	"verifsim/core"
	"verifsim/gen"
	"verifsim/prog"
	"verifsim/run"
)

// pagingWalks appends read-only steps that page through prefixes with every
// (offset, limit) combination over 0..n+1.
func pagingWalks(r *core.Rng, pg *prog.Program, buckets, prefixes []string, n int, psearch bool) {
	id := 0
	for _, st := range pg.Steps {
		if st.ID >= id {
			id = st.ID + 1
		}
	}
	for _, b := range buckets {
		for _, pre := range prefixes {
			v := prog.Step{K: prog.SView, ID: id}
			id++
			for lim := 1; lim <= n+1; lim++ {
				for off := 0; off <= n+1; off++ {
					v.Ops = append(v.Ops, prog.Op{K: "prefix", B: b, Key: pre, I: off, J: lim})
				}
			}
			for off := 0; off <= n+1; off++ {
				v.Ops = append(v.Ops, prog.Op{K: "prefix", B: b, Key: pre, I: off, J: -1})
			}
			if psearch {
				for _, re := range []string{".*", "^$", "[0-9]", "b"} {
					for lim := 1; lim <= n+1; lim += 2 {
						v.Ops = append(v.Ops, prog.Op{K: "psearch", B: b, Key: pre, Re: re, I: 0, J: lim})
					}
					v.Ops = append(v.Ops, prog.Op{K: "psearch", B: b, Key: pre, Re: re, I: 0, J: -1})
				}
			}
			if r.Bool(0.3) && len(v.Ops) > 1 {
				// time passes while the paging transaction is open: a key may
				// expire between two of its scans
				pos := 1 + r.Intn(len(v.Ops)-1)
				adv := prog.Op{K: "adv", TS: int64(r.Range(1, 3))}
				v.Ops = append(v.Ops[:pos:pos], append([]prog.Op{adv}, v.Ops[pos:]...)...)
			}
			pg.Steps = append(pg.Steps, v)
		}
	}
}

func c03gen(modes []int) func(r *core.Rng, tier string) *prog.Program {
	return func(r *core.Rng, tier string) *prog.Program {
		p := gen.KVParams{Modes: modes, Segs: []int64{128, 192, 256, 512, 4096}, MinTx: 3, MaxTx: 14, MaxOps: 4, Buckets: 1,
			TTL: true, Timestamps: true, Deletes: true, Advance: true, ManyKeys: 0.2}
		if tier == "thorough" {
			p.MaxTx = 30
		}
		pg := gen.KV(r, p)
		if pg.Cfg.IdxMode == 2 && pg.Cfg.SegSize < 192 {
			pg.Cfg.SegSize = 192
		}
		u := map[string]bool{}
		bs := map[string]bool{}
		for _, st := range pg.Steps {
			for _, op := range st.Ops {
				if op.Key != "" {
					u[op.Key] = true
				}
				bs[op.B] = true
			}
		}
		n := len(u)
		if n > 9 {
			n = 9
		}
		pres := map[string]bool{"": true}
		for k := range u {
			for i := range k {
				if i > 0 {
					pres[k[:i]] = true
					break
				}
			}
		}
		var prefixes, buckets []string
		for p := range pres {
			prefixes = append(prefixes, p)
		}
		for b := range bs {
			buckets = append(buckets, b)
		}
		sortStrings(prefixes)
		sortStrings(buckets)
		if len(prefixes) > 3 {
			prefixes = prefixes[:3]
		}
		if r.Bool(0.3) && pg.Cfg.IdxMode == 2 {
			pg.Steps = append(pg.Steps, prog.Step{K: prog.SReopen, ID: len(pg.Steps)})
		}
		pagingWalks(r, pg, buckets, prefixes, n, true)
		return pg
	}
}

func init() {
	Register(&Spec{
		ID: "C03", Level: "exploration",
		Rule: "seeded KV histories with many tombstones and expiring puts (clock moved across expiry), then for every bucket and up to 3 prefixes every PrefixScan(offset, limit) with offset in 0..n+1 and limit in 1..n+1 and no-limit, plus PrefixSearchScan with offset 0 over a few regular expressions; each result compared with the model that applies offset and limit to the live prefixed keys (so walking pages returns every live key exactly once); non-trivial = at least one dead key precedes a live key under a scanned prefix",
		Gen:  c03gen(c03modes()),
		Exec: func(seed uint64, p *prog.Program) *RunResult {
			r, res := seqExec(seed, p, run.Options{Deferred: true})
			res.Nontrivial = len(r.StateAt) >= 3
			return res
		},
		Classes: classes("op"),
		Assume:  []string{"limit = 0 and negative offsets are outside the statement and not judged", "the returned 'off' value is not judged (no statement defines it)"},
	})
}

func c03modes() []int {
	if os.Getenv("NUTSIM_C03_SPARSE") != "" { // experiments only
		return []int{2}
	}
	return []int{0, 1, 2}
}

func init() {
	adv := []string{"a", "ab", "abc", "b", "", "a|b", "ba"}
	Register(&Spec{
		ID: "C04", Level: "exploration",
		Rule: "seeded histories over two to four buckets whose names and keys are adversarial (a+bc vs ab+c vs abc+'' concatenations that coincide, names that are prefixes of each other or equal to keys, the empty name, names containing '|'), KV in all three index modes and lists/sets/sorted sets in key+value mode, single-bucket transactions, clean reopens; every read (Get of every key in every bucket, GetAll, RangeScan, PrefixScan, and the structure reads) is compared after every step with a model whose buckets are independent namespaces, so any write that leaks into another bucket's reads is a violation; non-trivial = at least two buckets were written",
		Gen: func(r *core.Rng, tier string) *prog.Program {
			nb := r.Range(2, 4)
			bs := subsetStr(r, adv, nb)
			p := gen.MixParams{Modes: []int{0}, Segs: []int64{192, 256, 512, 4096}, DS: []string{"kv", "list", "set", "zset"}, MinTx: 4, MaxTx: 20, MaxOps: 3,
				Views: true, Reopen: 0.15, NoEmptyMember: true, OneBucketPerTx: true, Buckets: bs, KVTTL: false}
			if r.Bool(0.5) {
				p.DS = []string{"kv"}
				p.Modes = []int{0, 1, 2}
			} else if r.Bool(0.4) {
				// Merge must not make buckets interfere either (lists and
				// positional sorted-set removals are excluded with Merge: K4, K5)
				p.DS = []string{"kv", "set", "zset"}
				p.NoZPop = true
				p.Merge = 0.15
				p.Segs = []int64{192, 256}
			}
			if tier == "thorough" {
				p.MaxTx = 45
			}
			pg := gen.Mix(r, p)
			if pg.Cfg.IdxMode == 2 {
				// known finding K6: sparse mode indexes by the bare concatenation
				// bucket+key.  Bucket names of equal length keep concatenations
				// unambiguous; keys stay adversarial.
				eq := []string{"aa", "ab", "ba", "a|"}
				m := map[string]string{}
				for i, b := range bs {
					m[b] = eq[i%len(eq)]
				}
				for si := range pg.Steps {
					for oi := range pg.Steps[si].Ops {
						op := &pg.Steps[si].Ops[oi]
						if nb, ok := m[op.B]; ok {
							op.B = nb
						}
						if nb, ok := m[op.B2]; ok && op.B2 != "" {
							op.B2 = nb
						}
					}
				}
			}
			// adversarial keys: make bucket+key concatenations coincide
			keys := []string{"bc", "c", "b", "a", "abc", "ab", "|b"}
			for si := range pg.Steps {
				for oi := range pg.Steps[si].Ops {
					op := &pg.Steps[si].Ops[oi]
					if prog.DS(op.K) == "kv" && op.Key != "" && (op.K == "put" || op.K == "del" || op.K == "get" || op.K == "putts") {
						op.Key = keys[r.Intn(len(keys))]
					}
				}
			}
			return pg
		},
		Exec: func(seed uint64, p *prog.Program) *RunResult {
			r, res := seqExec(seed, p, run.Options{Deferred: true, ObserveEvery: true})
			written := map[string]bool{}
			for _, st := range p.Steps {
				if st.K == prog.STx {
					for _, op := range st.Ops {
						written[op.B] = true
					}
				}
			}
			res.Nontrivial = len(written) >= 2 && len(r.StateAt) >= 3
			return res
		},
		Classes: classes("op", "observe"),
	})
}

func subsetStr(r *core.Rng, xs []string, n int) []string {
	idx := r.Intn(len(xs))
	seen := map[int]bool{}
	var out []string
	for len(out) < n && len(out) < len(xs) {
		if !seen[idx] {
			seen[idx] = true
			out = append(out, xs[idx])
		}
		idx = r.Intn(len(xs))
	}
	return out
}
