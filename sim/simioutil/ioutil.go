// Package simioutil replaces "io/ioutil" in the scratch copy of the system under test.
package simioutil

import (
	"io"

	"verifsim/core"
	os "verifsim/simos"
)

var Discard = io.Discard

func ReadDir(dirname string) ([]os.FileInfo, error) { return core.W.Disk.ReadDir(dirname) }
func ReadFile(filename string) ([]byte, error)      { return os.ReadFile(filename) }
func WriteFile(filename string, data []byte, perm os.FileMode) error {
	return os.WriteFile(filename, data, perm)
}
func ReadAll(r io.Reader) ([]byte, error)            { return io.ReadAll(r) }
func NopCloser(r io.Reader) io.ReadCloser            { return io.NopCloser(r) }
func TempDir(dir, pattern string) (string, error)    { return os.MkdirTemp(dir, pattern) }
func TempFile(dir, pattern string) (*os.File, error) { return os.CreateTemp(dir, pattern) }
