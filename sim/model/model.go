// Package model is the executable reference model: pure Go, no I/O, written
// from the property statements and the README, not from the implementation.
// It is used as a *checker*: for every API call it is handed the observed
// result, decides whether that result is acceptable (one exact answer in the
// clearly defined domain, a small set where a convention is open — DESIGN
// §3.5), and updates its state accordingly.
package model

import (
	"fmt"
	"math"
	"regexp"
	"sort"
	"strconv"
	"strings"

	"verifsim/prog"
)

type kvRec struct {
	Val     string
	TTL     uint32
	TS      uint64
	Deleted bool
}

type zMember struct {
	Score float64
	Val   string
}

// State is the logical content of a database.
type State struct {
	KV   map[string]map[string]kvRec    // bucket -> key -> record (tombstones kept)
	List map[string]map[string][]string // bucket -> key -> elements
	Set  map[string]map[string]map[string]bool
	ZSet map[string]map[string]zMember

	// applyDeferred is set while the effects of a Deferred transaction are
	// applied at commit: an effect whose operation would be refused on the
	// then-current state (open-convention domain) follows the system's own
	// convention there, because no result can be observed at that moment.
	applyDeferred bool
}

func New() *State {
	return &State{KV: map[string]map[string]kvRec{}, List: map[string]map[string][]string{}, Set: map[string]map[string]map[string]bool{}, ZSet: map[string]map[string]zMember{}}
}

func (s *State) Clone() *State {
	c := New()
	for b, m := range s.KV {
		cm := make(map[string]kvRec, len(m))
		for k, v := range m {
			cm[k] = v
		}
		c.KV[b] = cm
	}
	for b, m := range s.List {
		cm := make(map[string][]string, len(m))
		for k, v := range m {
			cm[k] = append([]string(nil), v...)
		}
		c.List[b] = cm
	}
	for b, m := range s.Set {
		cm := make(map[string]map[string]bool, len(m))
		for k, v := range m {
			cs := make(map[string]bool, len(v))
			for e := range v {
				cs[e] = true
			}
			cm[k] = cs
		}
		c.Set[b] = cm
	}
	for b, m := range s.ZSet {
		cm := make(map[string]zMember, len(m))
		for k, v := range m {
			cm[k] = v
		}
		c.ZSet[b] = cm
	}
	return c
}

// Outcome is the set of acceptable results of one call plus its effect.
type Outcome struct {
	Vals     []string                      // acceptable values (canonical); empty = no value acceptable
	ErrOK    bool                          // an error (with no effect) is acceptable
	Any      bool                          // the value is not judged (outside every statement)
	Effect   func(*State)                  // applied iff the call did not return an error
	EffectOf func(got string) func(*State) // effect depends on the observed value (SPop)
	Note     string
}

func val(v string, eff func(*State)) Outcome { return Outcome{Vals: []string{v}, Effect: eff} }
func errOnly() Outcome                       { return Outcome{ErrOK: true} }

// Check judges an observed result against an outcome.
func (o Outcome) Check(got prog.Res) error {
	if got.Panic != "" {
		return fmt.Errorf("panicked: %s", got.Panic)
	}
	if got.Err {
		if o.ErrOK {
			return nil
		}
		return fmt.Errorf("returned an error (%s), want %s", got.Msg, o.want())
	}
	if o.Any {
		return nil
	}
	for _, v := range o.Vals {
		if v == got.V {
			return nil
		}
	}
	return fmt.Errorf("returned %s, want %s", got.V, o.want())
}

func (o Outcome) want() string {
	alts := append([]string(nil), o.Vals...)
	if o.ErrOK {
		alts = append(alts, "ERR")
	}
	if o.Any {
		alts = append(alts, "<anything>")
	}
	return strings.Join(alts, " | ")
}

// Q quotes a byte string canonically.
func Q(s string) string { return strconv.Quote(s) }

// EncPairs encodes key/value pairs in order.
func EncPairs(ks, vs []string) string {
	parts := make([]string, len(ks))
	for i := range ks {
		parts[i] = Q(ks[i]) + "=" + Q(vs[i])
	}
	return "[" + strings.Join(parts, ",") + "]"
}

// EncList encodes a list of byte strings in order.
func EncList(xs []string) string {
	parts := make([]string, len(xs))
	for i := range xs {
		parts[i] = Q(xs[i])
	}
	return "[" + strings.Join(parts, ",") + "]"
}

// EncSet encodes a set of byte strings (sorted).
func EncSet(xs []string) string {
	ys := append([]string(nil), xs...)
	sort.Strings(ys)
	return EncList(ys)
}

// EncScore renders a score.
func EncScore(f float64) string { return strconv.FormatFloat(f, 'g', -1, 64) }

// EncNode renders one sorted-set node.
func EncNode(key string, score float64, val string) string {
	return Q(key) + ":" + EncScore(score) + ":" + Q(val)
}

func EncNodes(ns []string) string { return "[" + strings.Join(ns, ",") + "]" }

// ---------------------------------------------------------------- KV

func live(r kvRec, now int64) bool {
	if r.Deleted {
		return false
	}
	if r.TTL == 0 {
		return true
	}
	return uint64(now) < r.TS+uint64(r.TTL)
}

func (s *State) liveKeys(b string, now int64, pred func(k string) bool) (ks, vs []string) {
	m := s.KV[b]
	for k, r := range m {
		if live(r, now) && (pred == nil || pred(k)) {
			ks = append(ks, k)
		}
	}
	sort.Strings(ks)
	for _, k := range ks {
		vs = append(vs, m[k].Val)
	}
	return
}

// ValueOf returns the value an op stores (with padding applied).
func ValueOf(op prog.Op) string {
	if op.Big > 0 && len(op.Val) < op.Big {
		pad := "x"
		if op.Zero {
			pad = "\x00"
		}
		return op.Val + strings.Repeat(pad, op.Big-len(op.Val))
	}
	return op.Val
}

// Eval returns the acceptable outcomes of op on state s at simulated second now.
func (s *State) Eval(op prog.Op, now int64) Outcome {
	switch op.K {
	case "adv":
		return val("ok", nil) // the executor moved the clock; nothing else happens
	// ------------------------------------------------------------ KV
	case "put", "putts":
		if op.Key == "" {
			return errOnly()
		}
		ts := uint64(now)
		if op.K == "putts" {
			ts = uint64(now + op.TS)
		}
		v := ValueOf(op)
		return val("ok", func(t *State) {
			if t.KV[op.B] == nil {
				t.KV[op.B] = map[string]kvRec{}
			}
			t.KV[op.B][op.Key] = kvRec{Val: v, TTL: op.TTL, TS: ts}
		})
	case "del":
		if op.Key == "" {
			return errOnly()
		}
		return val("ok", func(t *State) {
			if t.KV[op.B] == nil {
				t.KV[op.B] = map[string]kvRec{}
			}
			t.KV[op.B][op.Key] = kvRec{Deleted: true, TS: uint64(now)}
		})
	case "get":
		r, ok := s.KV[op.B][op.Key]
		if !ok || !live(r, now) {
			return errOnly()
		}
		return val(Q(op.Key)+"="+Q(r.Val), nil)
	case "getall":
		ks, vs := s.liveKeys(op.B, now, nil)
		if len(ks) == 0 {
			// nothing live: "not found" error, or an empty result
			return Outcome{Vals: []string{"[]"}, ErrOK: true}
		}
		return val(EncPairs(ks, vs), nil)
	case "range":
		if op.Key > op.Key2 {
			// a reversed range holds no key: an error or an empty result
			return Outcome{Vals: []string{"[]"}, ErrOK: true}
		}
		ks, vs := s.liveKeys(op.B, now, func(k string) bool { return k >= op.Key && k <= op.Key2 })
		if len(ks) == 0 {
			// nothing live: "not found" error, or an empty result
			return Outcome{Vals: []string{"[]"}, ErrOK: true}
		}
		return val(EncPairs(ks, vs), nil)
	case "prefix", "psearch":
		var rgx *regexp.Regexp
		if op.K == "psearch" {
			var err error
			rgx, err = regexp.Compile(op.Re)
			if err != nil {
				return errOnly()
			}
		}
		ks, vs := s.liveKeys(op.B, now, func(k string) bool {
			if !strings.HasPrefix(k, op.Key) {
				return false
			}
			return rgx == nil || rgx.MatchString(strings.TrimPrefix(k, op.Key))
		})
		if op.J == 0 {
			// limit 0 is outside every statement
			return Outcome{Any: true, ErrOK: true}
		}
		off := op.I
		if off < 0 {
			return Outcome{Any: true, ErrOK: true}
		}
		if off > len(ks) {
			off = len(ks)
		}
		ks, vs = ks[off:], vs[off:]
		if op.J > 0 && len(ks) > op.J {
			ks, vs = ks[:op.J], vs[:op.J]
		}
		if len(ks) == 0 {
			// nothing live: "not found" error, or an empty result
			return Outcome{Vals: []string{"[]"}, ErrOK: true}
		}
		return val(EncPairs(ks, vs), nil)
	}
	switch prog.DS(op.K) {
	case "list":
		return s.evalList(op)
	case "set":
		return s.evalSet(op)
	case "zset":
		return s.evalZSet(op)
	}
	return Outcome{Any: true, ErrOK: true, Note: "unknown op"}
}

// ---------------------------------------------------------------- List (Redis semantics)

const sep = "|"

func (s *State) list(b, k string) ([]string, bool) {
	l, ok := s.List[b][k]
	return l, ok
}

func setList(t *State, b, k string, l []string) {
	if t.List[b] == nil {
		t.List[b] = map[string][]string{}
	}
	t.List[b][k] = l
}

// normRange applies Redis LRANGE index normalisation; ok=false when the result is empty.
func normRange(n, start, end int) (int, int, bool) {
	if start < 0 {
		start += n
		if start < 0 {
			start = 0
		}
	}
	if end < 0 {
		end += n
	}
	if end >= n {
		end = n - 1
	}
	if start > end || start >= n || end < 0 {
		return 0, -1, false
	}
	return start, end, true
}

func inRange(n, start, end int) bool {
	if start < 0 {
		start += n
	}
	if end < 0 {
		end += n
	}
	return 0 <= start && start <= end && end < n
}

func lrem(l []string, count int, v string) ([]string, int) {
	out := make([]string, 0, len(l))
	removed := 0
	if count >= 0 {
		for _, e := range l {
			if e == v && (count == 0 || removed < count) {
				removed++
				continue
			}
			out = append(out, e)
		}
		return out, removed
	}
	lim := -count
	keep := make([]bool, len(l))
	for i := len(l) - 1; i >= 0; i-- {
		if l[i] == v && removed < lim {
			removed++
		} else {
			keep[i] = true
		}
	}
	for i, e := range l {
		if keep[i] {
			out = append(out, e)
		}
	}
	return out, removed
}

func (s *State) evalList(op prog.Op) Outcome {
	l, exists := s.list(op.B, op.Key)
	n := len(l)
	badKey := op.Key == "" || strings.Contains(op.Key, sep)
	switch op.K {
	case "rpush", "lpush":
		if badKey {
			return errOnly()
		}
		vals := op.Vals
		if len(vals) == 0 {
			// pushing nothing: no effect either way
			return Outcome{Vals: []string{"ok"}, ErrOK: true}
		}
		return val("ok", func(t *State) {
			cur, _ := t.list(op.B, op.Key)
			nl := append([]string(nil), cur...)
			for _, v := range vals {
				if op.K == "rpush" {
					nl = append(nl, v)
				} else {
					nl = append([]string{v}, nl...)
				}
			}
			setList(t, op.B, op.Key, nl)
		})
	case "lpop", "rpop":
		if n == 0 {
			return errOnly()
		}
		if op.K == "lpop" {
			return val(Q(l[0]), func(t *State) {
				cur, _ := t.list(op.B, op.Key)
				if len(cur) > 0 {
					setList(t, op.B, op.Key, append([]string(nil), cur[1:]...))
				}
			})
		}
		return val(Q(l[n-1]), func(t *State) {
			cur, _ := t.list(op.B, op.Key)
			if len(cur) > 0 {
				setList(t, op.B, op.Key, append([]string(nil), cur[:len(cur)-1]...))
			}
		})
	case "lpeek":
		if n == 0 {
			return errOnly()
		}
		return val(Q(l[0]), nil)
	case "rpeek":
		if n == 0 {
			return errOnly()
		}
		return val(Q(l[n-1]), nil)
	case "lsize":
		if !exists {
			return Outcome{Vals: []string{"0"}, ErrOK: true}
		}
		return val(strconv.Itoa(n), nil)
	case "lrange":
		if !exists {
			return Outcome{Vals: []string{"[]"}, ErrOK: true}
		}
		a, b, ok := normRange(n, op.I, op.J)
		var want string
		if ok {
			want = EncList(l[a : b+1])
		} else {
			want = "[]"
		}
		if inRange(n, op.I, op.J) {
			return val(want, nil)
		}
		return Outcome{Vals: []string{want}, ErrOK: true}
	case "lrem":
		if !exists {
			return Outcome{Vals: []string{"0"}, ErrOK: true}
		}
		_, removed := lrem(l, op.I, op.Val)
		eff := func(t *State) {
			cur, _ := t.list(op.B, op.Key)
			if t.applyDeferred {
				if op.I > len(cur) {
					return // refused at apply time (count larger than the list): no effect
				}
			}
			nl, _ := lrem(cur, op.I, op.Val)
			setList(t, op.B, op.Key, nl)
		}
		absCount := op.I
		if absCount < 0 {
			absCount = -absCount
		}
		if op.I == math.MinInt64 || absCount > n {
			return Outcome{Vals: []string{strconv.Itoa(removed)}, ErrOK: true, Effect: eff}
		}
		return val(strconv.Itoa(removed), eff)
	case "lset":
		if !exists {
			return errOnly()
		}
		idx := op.I
		if idx < 0 {
			idx += n
		}
		if idx < 0 || idx >= n {
			return errOnly()
		}
		eff := func(t *State) {
			cur, _ := t.list(op.B, op.Key)
			i := op.I
			if i < 0 {
				i += len(cur)
			}
			if i >= 0 && i < len(cur) {
				nl := append([]string(nil), cur...)
				nl[i] = op.Val
				setList(t, op.B, op.Key, nl)
			}
		}
		if op.I < 0 {
			return Outcome{Vals: []string{"ok"}, ErrOK: true, Effect: eff}
		}
		return val("ok", eff)
	case "ltrim":
		if !exists {
			return errOnly()
		}
		eff := func(t *State) {
			cur, _ := t.list(op.B, op.Key)
			if t.applyDeferred && !inRange(len(cur), op.I, op.J) {
				// out-of-range bounds met at apply time: the end is clamped,
				// a start beyond the end is refused (no effect)
				n := len(cur)
				st, en := op.I, op.J
				if st < 0 {
					st += n
					if st < 0 {
						st = 0
					}
				}
				if en < 0 {
					en += n
				}
				if en >= n {
					en = n - 1
				}
				if st > en {
					return
				}
				setList(t, op.B, op.Key, append([]string(nil), cur[st:en+1]...))
				return
			}
			a, b, ok := normRange(len(cur), op.I, op.J)
			if ok {
				setList(t, op.B, op.Key, append([]string(nil), cur[a:b+1]...))
			} else {
				setList(t, op.B, op.Key, []string{})
			}
		}
		if inRange(n, op.I, op.J) {
			return val("ok", eff)
		}
		return Outcome{Vals: []string{"ok"}, ErrOK: true, Effect: eff}
	}
	return Outcome{Any: true, ErrOK: true, Note: "unknown list op"}
}

// ---------------------------------------------------------------- Set

func (s *State) set(b, k string) (map[string]bool, bool) {
	m, ok := s.Set[b][k]
	return m, ok
}

func members(m map[string]bool) []string {
	out := make([]string, 0, len(m))
	for e := range m {
		out = append(out, e)
	}
	sort.Strings(out)
	return out
}

func ensureSet(t *State, b, k string) map[string]bool {
	if t.Set[b] == nil {
		t.Set[b] = map[string]map[string]bool{}
	}
	if t.Set[b][k] == nil {
		t.Set[b][k] = map[string]bool{}
	}
	return t.Set[b][k]
}

func (s *State) evalSet(op prog.Op) Outcome {
	m, exists := s.set(op.B, op.Key)
	_ = op.B
	// a set emptied by removals: Redis deletes the key, nutsdb keeps it
	emptied := exists && len(m) == 0
	switch op.K {
	case "sadd":
		if op.Key == "" {
			return errOnly()
		}
		if len(op.Vals) == 0 {
			return Outcome{Vals: []string{"ok"}, ErrOK: true}
		}
		return val("ok", func(t *State) {
			ms := ensureSet(t, op.B, op.Key)
			for _, v := range op.Vals {
				ms[v] = true
			}
		})
	case "srem":
		if op.Key == "" {
			return errOnly()
		}
		if len(op.Vals) == 0 {
			return Outcome{Vals: []string{"ok"}, ErrOK: true}
		}
		return val("ok", func(t *State) {
			if ms, ok := t.set(op.B, op.Key); ok {
				for _, v := range op.Vals {
					delete(ms, v)
				}
			}
		})
	case "spop":
		if len(m) == 0 {
			return errOnly()
		}
		alts := []string{}
		for e := range m {
			alts = append(alts, Q(e))
		}
		sort.Strings(alts)
		return Outcome{Vals: alts, EffectOf: func(got string) func(*State) {
			e, err := strconv.Unquote(got)
			if err != nil {
				return nil
			}
			return func(t *State) {
				if ms, ok := t.set(op.B, op.Key); ok {
					delete(ms, e)
				}
			}
		}}
	case "sismember":
		if !exists {
			return Outcome{Vals: []string{"false"}, ErrOK: true}
		}
		if m[op.Val] {
			return val("true", nil)
		}
		return Outcome{Vals: []string{"false"}, ErrOK: true}
	case "saremembers":
		if !exists {
			return Outcome{Vals: []string{"false"}, ErrOK: true}
		}
		all := true
		for _, v := range op.Vals {
			if !m[v] {
				all = false
			}
		}
		if all {
			return val("true", nil)
		}
		return Outcome{Vals: []string{"false"}, ErrOK: true}
	case "smembers":
		if !exists {
			return errOnly()
		}
		if emptied {
			return Outcome{Vals: []string{"[]"}, ErrOK: true}
		}
		return val(EncSet(members(m)), nil)
	case "scard":
		if !exists || emptied {
			return Outcome{Vals: []string{"0"}, ErrOK: true}
		}
		return val(strconv.Itoa(len(m)), nil)
	case "shaskey":
		if emptied {
			return Outcome{Vals: []string{"true", "false"}, ErrOK: true}
		}
		if !exists {
			return Outcome{Vals: []string{"false"}, ErrOK: true}
		}
		return val("true", nil)
	case "sdiff1", "sdiff2", "sunion1", "sunion2":
		b2 := op.B
		if op.K == "sdiff2" || op.K == "sunion2" {
			b2 = op.B2
		}
		m2, exists2 := s.set(b2, op.Key2)
		if !exists || !exists2 {
			return Outcome{ErrOK: true, Any: true}
		}
		emptied2 := len(m2) == 0
		var out []string
		if strings.HasPrefix(op.K, "sdiff") {
			for e := range m {
				if !m2[e] {
					out = append(out, e)
				}
			}
		} else {
			u := map[string]bool{}
			for e := range m {
				u[e] = true
			}
			for e := range m2 {
				u[e] = true
			}
			out = members(u)
		}
		if emptied || emptied2 {
			// a set emptied by removals may have ceased to exist (Redis deletes it)
			return Outcome{Vals: []string{EncSet(out)}, ErrOK: true}
		}
		return val(EncSet(out), nil)
	case "smove1", "smove2":
		b2 := op.B
		if op.K == "smove2" {
			b2 = op.B2
		}
		m2, exists2 := s.set(b2, op.Key2)
		if !exists || !exists2 || emptied {
			// missing key/bucket: error (a "false" without effect is tolerated)
			return Outcome{Vals: []string{"false"}, ErrOK: true}
		}
		if len(m2) == 0 && m[op.Val] {
			// destination emptied by removals may have ceased to exist: moved, or refused
			return Outcome{Vals: []string{"true"}, ErrOK: true, Effect: func(t *State) {
				if src, ok := t.set(op.B, op.Key); ok {
					delete(src, op.Val)
				}
				ensureSet(t, b2, op.Key2)[op.Val] = true
			}}
		}
		if !m[op.Val] {
			// non-member: state must not change; return value not judged
			return Outcome{Any: true, ErrOK: true}
		}
		// membership was established when the call was evaluated; the effect
		// is a removal from the source followed by an addition to the destination
		return val("true", func(t *State) {
			if src, ok := t.set(op.B, op.Key); ok {
				delete(src, op.Val)
			}
			ensureSet(t, b2, op.Key2)[op.Val] = true
		})
	}
	return Outcome{Any: true, ErrOK: true, Note: "unknown set op"}
}

// ---------------------------------------------------------------- Sorted set

type zEnt struct {
	Key   string
	Score float64
	Val   string
}

func (s *State) zsorted(b string) []zEnt {
	m := s.ZSet[b]
	out := make([]zEnt, 0, len(m))
	for k, v := range m {
		out = append(out, zEnt{k, v.Score, v.Val})
	}
	sort.Slice(out, func(i, j int) bool {
		if out[i].Score != out[j].Score {
			return out[i].Score < out[j].Score
		}
		return out[i].Key < out[j].Key
	})
	return out
}

func encEnts(es []zEnt) string {
	parts := make([]string, len(es))
	for i, e := range es {
		parts[i] = EncNode(e.Key, e.Score, e.Val)
	}
	return EncNodes(parts)
}

// rankRange resolves 1-based ranks: negatives count from the end, values <= 0
// clamp to 1, start > end means descending; the result is then intersected
// with [1,n].  Returns indexes (0-based) in result order.
func rankRange(n, start, end int) []int {
	if start < 0 {
		start = n + start + 1
	}
	if end < 0 {
		end = n + end + 1
	}
	if start <= 0 {
		start = 1
	}
	if end <= 0 {
		end = 1
	}
	rev := start > end
	if rev {
		start, end = end, start
	}
	var idx []int
	for r := start; r <= end && r <= n; r++ {
		idx = append(idx, r-1)
	}
	if rev {
		for i, j := 0, len(idx)-1; i < j; i, j = i+1, j-1 {
			idx[i], idx[j] = idx[j], idx[i]
		}
	}
	return idx
}

func ranksInside(n, start, end int) bool {
	if start < 0 {
		start = n + start + 1
	}
	if end < 0 {
		end = n + end + 1
	}
	return start >= 1 && start <= n && end >= 1 && end <= n
}

func (s *State) evalZSet(op prog.Op) Outcome {
	o := s.evalZSet1(op)
	if _, ok := s.ZSet[op.B]; ok && len(s.ZSet[op.B]) == 0 && op.K != "zadd" {
		// a sorted set emptied by removals may have ceased to exist (Redis
		// deletes empty keys; nutsdb forgets it once its records are merged away)
		o.ErrOK = true
	}
	return o
}

func (s *State) evalZSet1(op prog.Op) Outcome {
	_, bucketExists := s.ZSet[op.B]
	ents := s.zsorted(op.B)
	n := len(ents)
	switch op.K {
	case "zadd":
		if strings.Contains(op.Key, sep) {
			return errOnly()
		}
		if op.Key == "" {
			// the empty member key: accepted or refused
			return Outcome{Vals: []string{"ok"}, ErrOK: true, Effect: func(t *State) { zput(t, op.B, op.Key, op.F, op.Val) }}
		}
		return val("ok", func(t *State) { zput(t, op.B, op.Key, op.F, op.Val) })
	case "zrem":
		if !bucketExists {
			return errOnly()
		}
		eff := func(t *State) {
			if m := t.ZSet[op.B]; m != nil {
				delete(m, op.Key)
			}
		}
		if op.Key == "" {
			return Outcome{Vals: []string{"ok"}, ErrOK: true, Effect: eff}
		}
		return val("ok", eff)
	case "zremrank":
		if !bucketExists {
			return errOnly()
		}
		return val("ok", func(t *State) {
			es := t.zsorted(op.B)
			for _, i := range rankRange(len(es), op.I, op.J) {
				delete(t.ZSet[op.B], es[i].Key)
			}
		})
	case "zpopmax", "zpopmin", "zpeekmax", "zpeekmin":
		if !bucketExists {
			return errOnly()
		}
		var eff func(*State)
		if op.K == "zpopmax" {
			eff = func(t *State) {
				es := t.zsorted(op.B)
				if len(es) > 0 {
					delete(t.ZSet[op.B], es[len(es)-1].Key)
				}
			}
		}
		if op.K == "zpopmin" {
			eff = func(t *State) {
				es := t.zsorted(op.B)
				if len(es) > 0 {
					delete(t.ZSet[op.B], es[0].Key)
				}
			}
		}
		if n == 0 {
			// nothing to return; a pop is still a pop of whatever is the
			// extreme when it is applied (a no-op under strict semantics)
			return Outcome{Vals: []string{"nil"}, ErrOK: true, Effect: eff}
		}
		e := ents[0]
		if op.K == "zpopmax" || op.K == "zpeekmax" {
			e = ents[n-1]
		}
		return val(EncNode(e.Key, e.Score, e.Val), eff)
	case "zcard":
		if !bucketExists {
			return errOnly()
		}
		return val(strconv.Itoa(n), nil)
	case "zmembers":
		if !bucketExists {
			return errOnly()
		}
		byKey := append([]zEnt(nil), ents...)
		sort.Slice(byKey, func(i, j int) bool { return byKey[i].Key < byKey[j].Key })
		return val(encEnts(byKey), nil)
	case "zscore":
		if !bucketExists {
			return errOnly()
		}
		m, ok := s.ZSet[op.B][op.Key]
		if !ok {
			return errOnly()
		}
		return val(EncScore(m.Score), nil)
	case "zgetbykey":
		if !bucketExists {
			return errOnly()
		}
		m, ok := s.ZSet[op.B][op.Key]
		if !ok {
			return errOnly()
		}
		return val(EncNode(op.Key, m.Score, m.Val), nil)
	case "zrank", "zrevrank":
		if !bucketExists {
			return errOnly()
		}
		r := 0
		for i, e := range ents {
			if e.Key == op.Key {
				r = i + 1
			}
		}
		if r == 0 {
			return val("0", nil)
		}
		if op.K == "zrevrank" {
			r = n - r + 1
		}
		return val(strconv.Itoa(r), nil)
	case "zrangebyrank":
		if !bucketExists {
			return errOnly()
		}
		idx := rankRange(n, op.I, op.J)
		out := make([]zEnt, len(idx))
		for i, x := range idx {
			out[i] = ents[x]
		}
		want := encEnts(out)
		if ranksInside(n, op.I, op.J) {
			return val(want, nil)
		}
		// bounds outside [1,len]: also accept clamping the high bound to len
		alt := want
		if n > 0 {
			st, en := op.I, op.J
			if st < 0 {
				st = n + st + 1
			}
			if en < 0 {
				en = n + en + 1
			}
			cl := func(x int) int {
				if x < 1 {
					return 1
				}
				if x > n {
					return n
				}
				return x
			}
			idx2 := rankRange(n, cl(st), cl(en))
			out2 := make([]zEnt, len(idx2))
			for i, x := range idx2 {
				out2[i] = ents[x]
			}
			alt = encEnts(out2)
		}
		return Outcome{Vals: []string{want, alt}}
	case "zrangebyscore", "zcount":
		if !bucketExists {
			return errOnly()
		}
		lo, hi := op.F, op.F2
		exLo, exHi := op.ExS && !op.NoOp, op.ExE && !op.NoOp
		rev := lo > hi
		if rev {
			lo, hi = hi, lo
			exLo, exHi = exHi, exLo
		}
		var out []zEnt
		for _, e := range ents {
			if e.Score < lo || (exLo && e.Score == lo) {
				continue
			}
			if e.Score > hi || (exHi && e.Score == hi) {
				continue
			}
			out = append(out, e)
		}
		if rev {
			for i, j := 0, len(out)-1; i < j; i, j = i+1, j-1 {
				out[i], out[j] = out[j], out[i]
			}
		}
		if !op.NoOp && op.Lim > 0 && len(out) > op.Lim {
			out = out[:op.Lim]
		}
		if op.K == "zcount" {
			return val(strconv.Itoa(len(out)), nil)
		}
		return val(encEnts(out), nil)
	}
	return Outcome{Any: true, ErrOK: true, Note: "unknown zset op"}
}

func zput(t *State, b, k string, score float64, v string) {
	if t.ZSet[b] == nil {
		t.ZSet[b] = map[string]zMember{}
	}
	t.ZSet[b][k] = zMember{Score: score, Val: v}
}

// ---------------------------------------------------------------- transactions

// Tx is a model transaction.  Strict: operations run one after another on a
// working copy of the state at its start (what C13 demands).  With Deferred
// set (the deviant switch "reads see the state at transaction start; writes
// are applied in order at commit"), every call is evaluated on the start state
// and the effects are applied at commit.
type Tx struct {
	base     *State
	work     *State
	Deferred bool
	effects  []func(*State)
	Writes   int
}

func (s *State) Begin(deferred bool) *Tx {
	t := &Tx{base: s, Deferred: deferred}
	if !deferred {
		t.work = s.Clone()
	}
	return t
}

// Step judges one call and records its effect.
func (t *Tx) Step(op prog.Op, now int64, got prog.Res, writable bool) error {
	view := t.work
	if t.Deferred {
		view = t.base
	}
	var o Outcome
	if !writable && !prog.IsRead(op.K) {
		// mutating call in a read-only transaction: whatever it returns, it
		// has no effect (the following observations check that).
		o = Outcome{Any: true, ErrOK: true}
	} else {
		o = view.Eval(op, now)
	}
	if err := o.Check(got); err != nil {
		return err
	}
	if got.Err || got.Panic != "" {
		return nil
	}
	eff := o.Effect
	if o.EffectOf != nil {
		eff = o.EffectOf(got.V)
	}
	if eff != nil {
		t.Writes++
		if t.Deferred {
			t.effects = append(t.effects, eff)
		} else {
			eff(t.work)
		}
	}
	return nil
}

// Commit returns the state after the transaction.
func (t *Tx) Commit() *State {
	if t.Deferred {
		ns := t.base.Clone()
		ns.applyDeferred = true
		for _, e := range t.effects {
			e(ns)
		}
		ns.applyDeferred = false
		return ns
	}
	return t.work
}

// ---------------------------------------------------------------- universe & full observation

// Universe is the finite set of names a run talks about.
type Universe struct {
	KVBuckets   []string
	KVKeys      []string
	ListBuckets []string
	ListKeys    []string
	SetBuckets  []string
	SetKeys     []string
	ZBuckets    []string
	Prefixes    []string
}

func uniq(xs []string) []string {
	m := map[string]bool{}
	for _, x := range xs {
		m[x] = true
	}
	out := make([]string, 0, len(m))
	for x := range m {
		out = append(out, x)
	}
	sort.Strings(out)
	return out
}

// UniverseOf collects the names used by a program (plus one never-written bucket).
func UniverseOf(p *prog.Program) *Universe {
	u := &Universe{}
	for _, st := range p.Steps {
		for _, op := range st.Ops {
			switch prog.DS(op.K) {
			case "kv":
				u.KVBuckets = append(u.KVBuckets, op.B)
				if op.K != "prefix" && op.K != "psearch" && op.K != "getall" {
					if op.Key != "" {
						u.KVKeys = append(u.KVKeys, op.Key)
					}
					if op.Key2 != "" {
						u.KVKeys = append(u.KVKeys, op.Key2)
					}
				}
			case "list":
				u.ListBuckets = append(u.ListBuckets, op.B)
				if op.Key != "" && !strings.Contains(op.Key, sep) {
					u.ListKeys = append(u.ListKeys, op.Key)
				}
			case "set":
				u.SetBuckets = append(u.SetBuckets, op.B)
				if op.B2 != "" {
					u.SetBuckets = append(u.SetBuckets, op.B2)
				}
				if op.Key != "" {
					u.SetKeys = append(u.SetKeys, op.Key)
				}
				if op.Key2 != "" {
					u.SetKeys = append(u.SetKeys, op.Key2)
				}
			case "zset":
				u.ZBuckets = append(u.ZBuckets, op.B)
			}
		}
	}
	u.KVBuckets = uniq(append(u.KVBuckets, "never-written"))
	u.KVKeys = uniq(u.KVKeys)
	u.ListBuckets = uniq(u.ListBuckets)
	u.ListKeys = uniq(u.ListKeys)
	u.SetBuckets = uniq(u.SetBuckets)
	u.SetKeys = uniq(u.SetKeys)
	u.ZBuckets = uniq(u.ZBuckets)
	pm := map[string]bool{"": true}
	for _, k := range u.KVKeys {
		for i := range k {
			if i > 0 {
				pm[k[:i]] = true
				break
			}
		}
		if len(k) > 0 {
			pm[k] = true
		}
	}
	for p := range pm {
		u.Prefixes = append(u.Prefixes, p)
	}
	sort.Strings(u.Prefixes)
	return u
}

// ObserveOps is the full observation: every read the API has over the universe.
// Only reads whose result is exactly defined are included.
func (u *Universe) ObserveOps(sparse bool) []prog.Op {
	ops := u.observeOps(sparse)
	if len(OnlyKinds) == 0 {
		return ops
	}
	var out []prog.Op
	for _, op := range ops {
		if OnlyKinds[op.K] {
			out = append(out, op)
		}
	}
	return out
}

// OnlyKinds, when set, restricts the full observation to these op kinds
// (experiments and narrowly scoped checks).
var OnlyKinds map[string]bool

func (u *Universe) observeOps(sparse bool) []prog.Op {
	var ops []prog.Op
	for _, b := range u.KVBuckets {
		for _, k := range u.KVKeys {
			ops = append(ops, prog.Op{K: "get", B: b, Key: k})
		}
		if !(sparse && b == "never-written") {
			// sparse GetAll of a never-written bucket is C09's business (it creates a file)
			ops = append(ops, prog.Op{K: "getall", B: b})
		}
		if len(u.KVKeys) > 0 {
			lo, hi := u.KVKeys[0], u.KVKeys[len(u.KVKeys)-1]
			ops = append(ops, prog.Op{K: "range", B: b, Key: lo, Key2: hi})
			ops = append(ops, prog.Op{K: "range", B: b, Key: "", Key2: hi + "\xff"})
			if len(u.KVKeys) > 2 {
				ops = append(ops, prog.Op{K: "range", B: b, Key: u.KVKeys[1], Key2: u.KVKeys[len(u.KVKeys)-2]})
			}
		}
		for _, p := range u.Prefixes {
			ops = append(ops, prog.Op{K: "prefix", B: b, Key: p, I: 0, J: -1})
		}
	}
	for _, b := range u.ListBuckets {
		for _, k := range u.ListKeys {
			ops = append(ops, prog.Op{K: "lrange", B: b, Key: k, I: 0, J: -1})
			ops = append(ops, prog.Op{K: "lsize", B: b, Key: k})
			ops = append(ops, prog.Op{K: "lpeek", B: b, Key: k})
			ops = append(ops, prog.Op{K: "rpeek", B: b, Key: k})
		}
	}
	for _, b := range u.SetBuckets {
		for _, k := range u.SetKeys {
			ops = append(ops, prog.Op{K: "smembers", B: b, Key: k})
			ops = append(ops, prog.Op{K: "scard", B: b, Key: k})
		}
	}
	for _, b := range u.ZBuckets {
		ops = append(ops, prog.Op{K: "zmembers", B: b})
		ops = append(ops, prog.Op{K: "zrangebyrank", B: b, I: 1, J: -1})
		ops = append(ops, prog.Op{K: "zcard", B: b})
	}
	return ops
}

// CheckObservation judges a full observation against the state.
func (s *State) CheckObservation(ops []prog.Op, got []prog.Res, now int64) error {
	for i, op := range ops {
		if err := s.Eval(op, now).Check(got[i]); err != nil {
			return fmt.Errorf("%s %v", op.String(), err)
		}
	}
	return nil
}

// Hash is an order-independent digest of the logical state (a coverage measure).
func (s *State) Hash() uint64 {
	var sb strings.Builder
	bs := []string{}
	for b := range s.KV {
		bs = append(bs, b)
	}
	sort.Strings(bs)
	for _, b := range bs {
		ks := []string{}
		for k := range s.KV[b] {
			ks = append(ks, k)
		}
		sort.Strings(ks)
		for _, k := range ks {
			r := s.KV[b][k]
			fmt.Fprintf(&sb, "K%q/%q=%q,%d,%d,%v;", b, k, r.Val, r.TTL, r.TS, r.Deleted)
		}
	}
	bs = bs[:0]
	for b := range s.List {
		bs = append(bs, b)
	}
	sort.Strings(bs)
	for _, b := range bs {
		ks := []string{}
		for k := range s.List[b] {
			ks = append(ks, k)
		}
		sort.Strings(ks)
		for _, k := range ks {
			fmt.Fprintf(&sb, "L%q/%q=%q;", b, k, s.List[b][k])
		}
	}
	bs = bs[:0]
	for b := range s.Set {
		bs = append(bs, b)
	}
	sort.Strings(bs)
	for _, b := range bs {
		ks := []string{}
		for k := range s.Set[b] {
			ks = append(ks, k)
		}
		sort.Strings(ks)
		for _, k := range ks {
			fmt.Fprintf(&sb, "S%q/%q=%q;", b, k, members(s.Set[b][k]))
		}
	}
	bs = bs[:0]
	for b := range s.ZSet {
		bs = append(bs, b)
	}
	sort.Strings(bs)
	for _, b := range bs {
		fmt.Fprintf(&sb, "Z%q=%s;", b, encEnts(s.zsorted(b)))
	}
	h := fnv64(sb.String())
	return h
}

func fnv64(s string) uint64 {
	var h uint64 = 14695981039346656037
	for i := 0; i < len(s); i++ {
		h ^= uint64(s[i])
		h *= 1099511628211
	}
	return h
}

// LiveTTL counts the live KV pairs that carry a TTL (a reach probe).
func (s *State) LiveTTL(now int64) int {
	n := 0
	for _, m := range s.KV {
		for _, r := range m {
			if r.TTL != 0 && live(r, now) {
				n++
			}
		}
	}
	return n
}
