// Package simmmap replaces github.com/xujiajun/mmap-go (edsrzf/mmap-go API) in
// the scratch copy of the system under test.  The mapped slice IS the
// simulated file's page-cache image (MAP_SHARED): stores through it are
// visible to every reader at once and become durable only at Flush.
package simmmap

import (
	"errors"
	"unsafe"

	"verifsim/core"
	os "verifsim/simos"
)

const (
	RDONLY = 0
	RDWR   = 1 << iota
	COPY
	EXEC
)

const ANON = 1 << iota

type MMap []byte

type entry struct {
	key  uintptr
	disk *core.Disk
	ino  *core.Inode
	name string
	n    int
}

// reg is a slice, not a map: see core.DirEnts.
var reg []*entry

// Reset forgets all mappings (between runs).
//
//go:norace
func Reset() { reg = nil }

//go:norace
func lookup(key uintptr) *entry {
	for _, e := range reg {
		if e.key == key {
			return e
		}
	}
	return nil
}

//go:norace
func Map(f *os.File, prot, flags int) (MMap, error) { return MapRegion(f, -1, prot, flags, 0) }

//go:norace
func MapRegion(f *os.File, length int, prot, flags int, offset int64) (MMap, error) {
	if f == nil || f.Core() == nil {
		return nil, errors.New("mmap: nil file")
	}
	if offset != 0 {
		return nil, errors.New("simmmap: non-zero offset is not modelled")
	}
	cf := f.Core()
	b, err := cf.Disk().MapInode(cf)
	if err != nil {
		return nil, err
	}
	if length >= 0 && length < len(b) {
		b = b[:length:length]
	}
	key := uintptr(unsafe.Pointer(&b[0]))
	e := lookup(key)
	if e == nil {
		e = &entry{key: key, disk: cf.Disk(), ino: cf.Inode(), name: cf.Name()}
		reg = append(reg, e)
	}
	e.n++
	return MMap(b), nil
}

//go:norace
func (m MMap) find() (*entry, uintptr) {
	if len(m) == 0 {
		return nil, 0
	}
	key := uintptr(unsafe.Pointer(&m[0]))
	return lookup(key), key
}

//go:norace
func (m MMap) Flush() error {
	e, _ := m.find()
	if e == nil {
		return errors.New("mmap: flush of unmapped region")
	}
	return e.disk.FlushInode(e.ino, e.name)
}

func (m MMap) Lock() error   { return nil }
func (m MMap) Unlock() error { return nil }

//go:norace
func (m *MMap) Unmap() error {
	e, _ := m.find()
	if e == nil {
		return errors.New("mmap: unmap of unmapped region")
	}
	err := e.disk.UnmapInode(e.ino, e.name)
	e.n--
	if e.n == 0 {
		for i, x := range reg {
			if x == e {
				reg = append(reg[:i:i], reg[i+1:]...)
				break
			}
		}
	}
	*m = nil
	return err
}
