// simrewrite copies a Go source tree and rewrites selected import paths so
// that the copied code talks to the simulator's shims instead of the real
// os/time/sync/... packages.  Only import paths change; the local package
// name is pinned to the original one so no identifier in the code is touched.
//
// usage: simrewrite [-tests] <srcdir> <dstdir>
package main

import (
	"bytes"
	"flag"
	"fmt"
	"go/ast"
	"go/format"
	"go/parser"
	"go/token"
	"io/ioutil"
	"os"
	"path/filepath"
	"strconv"
	"strings"
)

// original import path -> (new path, pinned local name)
var subst = map[string][2]string{
	"os":                                   {"verifsim/simos", "os"},
	"io/ioutil":                            {"verifsim/simioutil", "ioutil"},
	"path/filepath":                        {"verifsim/simfilepath", "filepath"},
	"time":                                 {"verifsim/simtime", "time"},
	"sync":                                 {"verifsim/simsync", "sync"},
	"math/rand":                            {"verifsim/simrand", "rand"},
	"github.com/xujiajun/mmap-go":          {"verifsim/simmmap", "mmap"},
	"github.com/edsrzf/mmap-go":            {"verifsim/simmmap", "mmap"},
	"github.com/xujiajun/utils/filesystem": {"verifsim/third/filesystem", "filesystem"},
	"github.com/bwmarrin/snowflake":        {"verifsim/third/snowflake", "snowflake"},
}

func main() {
	tests := flag.Bool("tests", false, "also copy _test.go files")
	flag.Parse()
	if flag.NArg() != 2 {
		fmt.Fprintln(os.Stderr, "usage: simrewrite [-tests] <srcdir> <dstdir>")
		os.Exit(2)
	}
	src, dst := flag.Arg(0), flag.Arg(1)
	n := 0
	err := filepath.Walk(src, func(p string, info os.FileInfo, err error) error {
		if err != nil {
			return err
		}
		rel, _ := filepath.Rel(src, p)
		if info.IsDir() {
			base := info.Name()
			if rel != "." && (strings.HasPrefix(base, ".") || base == "examples" || base == "testdata" || base == "vendor") {
				return filepath.SkipDir
			}
			return os.MkdirAll(filepath.Join(dst, rel), 0755)
		}
		if !info.Mode().IsRegular() {
			return nil
		}
		if !strings.HasSuffix(p, ".go") {
			if info.Name() == "go.mod" || info.Name() == "go.sum" {
				b, err := ioutil.ReadFile(p)
				if err != nil {
					return err
				}
				return ioutil.WriteFile(filepath.Join(dst, rel), b, 0644)
			}
			return nil
		}
		if strings.HasSuffix(p, "_test.go") && !*tests {
			return nil
		}
		out, changed, err := rewrite(p)
		if err != nil {
			return fmt.Errorf("%s: %v", p, err)
		}
		if changed {
			n++
		}
		return ioutil.WriteFile(filepath.Join(dst, rel), out, 0644)
	})
	if err != nil {
		fmt.Fprintln(os.Stderr, "simrewrite:", err)
		os.Exit(2)
	}
	fmt.Printf("simrewrite: %d files rewritten\n", n)
}

func rewrite(path string) ([]byte, bool, error) {
	fset := token.NewFileSet()
	f, err := parser.ParseFile(fset, path, nil, parser.ParseComments)
	if err != nil {
		return nil, false, err
	}
	changed := false
	for _, imp := range f.Imports {
		p, err := strconv.Unquote(imp.Path.Value)
		if err != nil {
			return nil, false, err
		}
		s, ok := subst[p]
		if !ok {
			continue
		}
		imp.Path.Value = strconv.Quote(s[0])
		if imp.Name == nil {
			imp.Name = ast.NewIdent(s[1])
		}
		changed = true
	}
	var buf bytes.Buffer
	if err := format.Node(&buf, fset, f); err != nil {
		return nil, false, err
	}
	return buf.Bytes(), changed, nil
}
