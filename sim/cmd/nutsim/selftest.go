package main

import (
	"flag"
	"fmt"
	"sort"

	"verifsim/check"
)

// selftest prints "<property> <run> <seed> <event-log hash> <violations>" for
// the first n runs of each property (or one), after optionally executing
// `warm` unrelated runs first in the same process.  The determinism proof
// (selftest.sh) runs this in many processes at several GOMAXPROCS values and
// diffs the output.
func cmdSelftest(args []string) int {
	fs := flag.NewFlagSet("selftest", flag.ExitOnError)
	prop := fs.String("prop", "", "")
	n := fs.Int("n", 50, "")
	warm := fs.Int("warm", 0, "")
	tier := fs.String("tier", "quick", "")
	fs.Parse(args)
	ids := []string{}
	for id := range check.Specs {
		if *prop == "" || *prop == id {
			ids = append(ids, id)
		}
	}
	sort.Strings(ids)
	seed := envSeed()
	for _, id := range ids {
		s := check.Specs[id]
		for i := 0; i < *warm; i++ {
			sd := check.RunSeed(seed+7, id, 100000+i)
			s.Exec(sd, s.GenProgram(sd, *tier))
		}
		for i := 0; i < *n; i++ {
			sd := check.RunSeed(seed, id, i)
			res := s.Exec(sd, s.GenProgram(sd, *tier))
			if res.ND {
				// outside the seams (Go map iteration order): only the verdict is
				// compared, i.e. the violations the property's check would report
				fmt.Printf("%s %d %d ND %d\n", id, i, sd, len(s.Relevant(res.Viol)))
				continue
			}
			fmt.Printf("%s %d %d %x %d %d\n", id, i, sd, res.LogHash, len(res.Viol), res.Images)
		}
	}
	return 0
}
