package main

import (
	"bytes"
	"flag"
	"fmt"
	"io"
	"os"
	"path/filepath"
	"sort"
	"strings"

	"verifsim/core"
	"verifsim/simos"
)

// fstest is the fidelity self-test of the simulated file system: seeded random
// operation sequences are applied to the real os package (in a scratch
// directory) and to simos, and results, error classes and final trees are diffed.
func cmdFstest(args []string) int {
	fs := flag.NewFlagSet("fstest", flag.ExitOnError)
	n := fs.Int("n", 300, "sequences")
	steps := fs.Int("steps", 60, "operations per sequence")
	fs.Parse(args)
	base, err := os.MkdirTemp(scratchParent(), "nutsim-fstest.")
	if err != nil {
		fmt.Fprintln(os.Stderr, err)
		return 2
	}
	defer os.RemoveAll(base)
	mism := 0
	ops := 0
	for seq := 0; seq < *n; seq++ {
		r := core.NewRng(core.Mix(envSeed(), uint64(seq)))
		w := core.NewWorld(uint64(seq))
		core.Use(w)
		root := filepath.Join(base, fmt.Sprintf("s%d", seq))
		os.MkdirAll(root, 0755)
		simos.MkdirAll("/root", 0755)
		names := []string{"a", "b", "d/x", "d/y", "d", "e/f/g"}
		type pair struct {
			rf *os.File
			sf *simos.File
		}
		var open []pair
		errClass := func(e error) string {
			switch {
			case e == nil:
				return "ok"
			case e == io.EOF:
				return "EOF"
			case os.IsNotExist(e):
				return "ENOENT"
			case os.IsExist(e):
				return "EEXIST"
			}
			return "err"
		}
		report := func(op string, a, b interface{}) {
			mism++
			if mism <= 10 {
				fmt.Printf("MISMATCH seq=%d %s: real=%v sim=%v\n", seq, op, a, b)
			}
		}
		for st := 0; st < *steps; st++ {
			ops++
			name := names[r.Intn(len(names))]
			rp, sp := filepath.Join(root, name), "/root/"+name
			switch r.Intn(13) {
			case 0, 1:
				flags := []int{os.O_RDONLY, os.O_RDWR, os.O_RDWR | os.O_CREATE, os.O_RDWR | os.O_CREATE | os.O_TRUNC, os.O_WRONLY | os.O_CREATE | os.O_EXCL, os.O_RDWR | os.O_CREATE | os.O_APPEND}
				fl := flags[r.Intn(len(flags))]
				rf, e1 := os.OpenFile(rp, fl, 0644)
				sf, e2 := simos.OpenFile(sp, fl, 0644)
				if errClass(e1) != errClass(e2) {
					report(fmt.Sprintf("OpenFile(%s,%#x)", name, fl), e1, e2)
				}
				if e1 == nil && e2 == nil {
					open = append(open, pair{rf, sf})
				} else {
					if rf != nil {
						rf.Close()
					}
					if sf != nil {
						sf.Close()
					}
				}
			case 2, 3:
				if len(open) == 0 {
					continue
				}
				p := open[r.Intn(len(open))]
				off := int64(r.Intn(200))
				data := bytes.Repeat([]byte{byte('a' + r.Intn(26))}, r.Intn(50))
				n1, e1 := p.rf.WriteAt(data, off)
				n2, e2 := p.sf.WriteAt(data, off)
				if n1 != n2 || errClass(e1) != errClass(e2) {
					report("WriteAt", fmt.Sprint(n1, e1), fmt.Sprint(n2, e2))
				}
			case 4, 5:
				if len(open) == 0 {
					continue
				}
				p := open[r.Intn(len(open))]
				off := int64(r.Intn(260))
				b1, b2 := make([]byte, r.Intn(80)), []byte(nil)
				b2 = make([]byte, len(b1))
				n1, e1 := p.rf.ReadAt(b1, off)
				n2, e2 := p.sf.ReadAt(b2, off)
				if n1 != n2 || errClass(e1) != errClass(e2) || !bytes.Equal(b1[:n1], b2[:n2]) {
					report("ReadAt", fmt.Sprint(n1, e1), fmt.Sprint(n2, e2))
				}
			case 6:
				if len(open) == 0 {
					continue
				}
				p := open[r.Intn(len(open))]
				sz := int64(r.Intn(300))
				e1, e2 := p.rf.Truncate(sz), p.sf.Truncate(sz)
				if errClass(e1) != errClass(e2) {
					report("Truncate", e1, e2)
				}
			case 7:
				if len(open) == 0 {
					continue
				}
				i := r.Intn(len(open))
				p := open[i]
				e1, e2 := p.rf.Close(), p.sf.Close()
				if errClass(e1) != errClass(e2) {
					report("Close", e1, e2)
				}
				open = append(open[:i], open[i+1:]...)
			case 8:
				e1, e2 := os.Remove(rp), simos.Remove(sp)
				if errClass(e1) != errClass(e2) {
					report("Remove "+name, e1, e2)
				}
			case 9:
				fi1, e1 := os.Stat(rp)
				fi2, e2 := simos.Stat(sp)
				if errClass(e1) != errClass(e2) {
					report("Stat "+name, e1, e2)
				} else if e1 == nil && (fi1.IsDir() != fi2.IsDir() || (!fi1.IsDir() && fi1.Size() != fi2.Size())) {
					report("Stat "+name, fmt.Sprint(fi1.IsDir(), fi1.Size()), fmt.Sprint(fi2.IsDir(), fi2.Size()))
				}
			case 10:
				e1, e2 := os.MkdirAll(rp, 0755), simos.MkdirAll(sp, 0755)
				if errClass(e1) != errClass(e2) {
					report("MkdirAll "+name, e1, e2)
				}
			case 11:
				if len(open) == 0 {
					continue
				}
				p := open[r.Intn(len(open))]
				if fi, err := p.rf.Stat(); err != nil || fi.IsDir() {
					continue // lseek/read on directory handles is file-system specific and unused by the system under test
				}
				// sequential read/write/seek
				whence := r.Intn(3)
				off := int64(r.Intn(100))
				if whence == 2 {
					off = -int64(r.Intn(20))
				}
				o1, e1 := p.rf.Seek(off, whence)
				o2, e2 := p.sf.Seek(off, whence)
				if o1 != o2 || errClass(e1) != errClass(e2) {
					report("Seek", fmt.Sprint(o1, e1), fmt.Sprint(o2, e2))
				}
				if r.Bool(0.5) {
					b1 := make([]byte, r.Intn(40))
					b2 := make([]byte, len(b1))
					n1, e1 := p.rf.Read(b1)
					n2, e2 := p.sf.Read(b2)
					if n1 != n2 || errClass(e1) != errClass(e2) || !bytes.Equal(b1[:n1], b2[:n2]) {
						report("Read", fmt.Sprint(n1, e1), fmt.Sprint(n2, e2))
					}
				} else {
					data := bytes.Repeat([]byte{byte('A' + r.Intn(26))}, r.Intn(30))
					n1, e1 := p.rf.Write(data)
					n2, e2 := p.sf.Write(data)
					if n1 != n2 || errClass(e1) != errClass(e2) {
						report("Write", fmt.Sprint(n1, e1), fmt.Sprint(n2, e2))
					}
				}
			case 12:
				d1, e1 := os.ReadDir(filepath.Dir(rp))
				d2, e2 := simos.ReadDir("/root/" + filepath.Dir(name))
				if errClass(e1) != errClass(e2) {
					report("ReadDir", e1, e2)
				} else if e1 == nil {
					var a, b []string
					for _, x := range d1 {
						a = append(a, x.Name())
					}
					for _, x := range d2 {
						b = append(b, x.Name())
					}
					if strings.Join(a, ",") != strings.Join(b, ",") {
						report("ReadDir", a, b)
					}
				}
			}
		}
		for _, p := range open {
			p.rf.Close()
			p.sf.Close()
		}
		// final trees
		var a, b []string
		filepath.Walk(root, func(p string, info os.FileInfo, err error) error {
			if err == nil && !info.IsDir() {
				c, _ := os.ReadFile(p)
				rel, _ := filepath.Rel(root, p)
				a = append(a, fmt.Sprintf("%s %d %x", rel, len(c), core.HashBytes(c)))
			}
			return nil
		})
		w.Disk.Walk("/root", func(p string, n *core.Node) {
			b = append(b, fmt.Sprintf("%s %d %x", strings.TrimPrefix(p, "/root/"), len(n.Ino.Data), core.HashBytes(n.Ino.Data)))
		})
		sort.Strings(a)
		sort.Strings(b)
		if strings.Join(a, "\n") != strings.Join(b, "\n") {
			report("final tree", a, b)
		}
	}
	fmt.Printf("fstest: %d sequences, %d operations, %d mismatches\n", *n, ops, mism)
	if mism > 0 {
		return 1
	}
	return 0
}
