package main

import (
	"fmt"

	"github.com/xujiajun/nutsdb"
	"verifsim/core"
)

func main() {
	w := core.NewWorld(1)
	core.Use(w)
	opt := nutsdb.DefaultOptions
	opt.Dir = "/db"
	opt.SegmentSize = 128
	db, err := nutsdb.Open(opt)
	fmt.Println("open", err)
	for i := 0; i < 10; i++ {
		err = db.Update(func(tx *nutsdb.Tx) error {
			return tx.Put("b", []byte(fmt.Sprintf("k%d", i)), []byte("v"), 0)
		})
		if err != nil {
			fmt.Println("put", err)
		}
	}
	db.View(func(tx *nutsdb.Tx) error {
		es, err := tx.GetAll("b")
		fmt.Println(len(es), err)
		return nil
	})
	fmt.Println(db.Close())
	fmt.Print(core.TreeDigest(w.Disk.Root))
	fmt.Println(w.IOPTotal, w.FMPTotal, w.Stats.IOByKind)
}
