// nutsim is the simulation runner: it is built against a scratch copy of
// nutsdb whose os/time/sync/... imports point at the simulator.
//
//	nutsim check  -prop C01 -tier quick|thorough     search + shrink + evidence (exit 0/1/2)
//	nutsim worker ...                                one worker process (internal)
//	nutsim replay -file replays/C01-123.json         re-execute a replay file
//	nutsim selftest                                  determinism / fidelity self-tests
package main

import (
	"encoding/json"
	"flag"
	"fmt"
	"os"
	"os/exec"
	"path/filepath"
	"runtime"
	"sort"
	"strconv"
	"strings"
	"time"

	"verifsim/check"
	"verifsim/model"
	"verifsim/run"
)

// verifDir is where evidence, replays and the known-findings file live: /verif,
// or the directory of the check script when it runs from a snapshot (vp run).
var verifDir = func() string {
	if d := os.Getenv("VERIF_DIR"); d != "" {
		return d
	}
	return "/verif"
}()

func envSeed() uint64 {
	if s := os.Getenv("VERIF_SEED"); s != "" {
		if v, err := strconv.ParseUint(s, 10, 64); err == nil {
			return v
		}
		if v, err := strconv.ParseInt(s, 10, 64); err == nil {
			return uint64(v)
		}
	}
	return 20260921
}

func main() {
	if v := os.Getenv("NUTSIM_ONLY_KINDS"); v != "" { // experiments only
		model.OnlyKinds = map[string]bool{}
		for _, k := range strings.Split(v, ",") {
			model.OnlyKinds[k] = true
		}
	}
	if len(os.Args) < 2 {
		fmt.Fprintln(os.Stderr, "usage: nutsim check|worker|replay|selftest ...")
		os.Exit(2)
	}
	switch os.Args[1] {
	case "check":
		os.Exit(cmdCheck(os.Args[2:]))
	case "worker":
		os.Exit(cmdWorker(os.Args[2:]))
	case "shrinkone":
		os.Exit(cmdShrinkOne(os.Args[2:]))
	case "replay":
		os.Exit(cmdReplay(os.Args[2:]))
	case "selftest":
		os.Exit(cmdSelftest(os.Args[2:]))
	case "fstest":
		os.Exit(cmdFstest(os.Args[2:]))
	case "gen":
		os.Exit(cmdGen(os.Args[2:]))
	}
	fmt.Fprintln(os.Stderr, "unknown subcommand", os.Args[1])
	os.Exit(2)
}

func cmdWorker(args []string) int {
	fs := flag.NewFlagSet("worker", flag.ExitOnError)
	prop := fs.String("prop", "", "")
	tier := fs.String("tier", "quick", "")
	seed := fs.Uint64("seed", 1, "")
	k := fs.Int("k", 0, "")
	stride := fs.Int("stride", 1, "")
	secs := fs.Float64("secs", 10, "")
	maxRuns := fs.Int("max", 0, "")
	out := fs.String("out", "", "")
	fs.Parse(args)
	s := check.Specs[*prop]
	if s == nil {
		fmt.Fprintln(os.Stderr, "unknown property", *prop)
		return 2
	}
	check.OnHang = func(part *check.WorkerOut) {
		b, _ := json.Marshal(part)
		if *out != "" {
			os.WriteFile(*out, b, 0644)
		} else {
			os.Stdout.Write(b)
		}
		os.Exit(0)
	}
	res := check.Worker(s, *tier, *seed, *k, *stride, *maxRuns, time.Now().Add(time.Duration(*secs*float64(time.Second))))
	b, _ := json.Marshal(res)
	if *out == "" {
		os.Stdout.Write(b)
		return 0
	}
	if err := os.WriteFile(*out, b, 0644); err != nil {
		fmt.Fprintln(os.Stderr, err)
		return 2
	}
	return 0
}

func cmdGen(args []string) int {
	fs := flag.NewFlagSet("gen", flag.ExitOnError)
	prop := fs.String("prop", "", "")
	tier := fs.String("tier", "quick", "")
	run := fs.Int("run", 0, "")
	fs.Parse(args)
	s := check.Specs[*prop]
	if s == nil {
		return 2
	}
	seed := check.RunSeed(envSeed(), s.ID, *run)
	p := s.GenProgram(seed, *tier)
	fmt.Printf("seed=%d\n%s", seed, p.String())
	res := s.Exec(seed, p)
	for _, v := range res.Viol {
		fmt.Println("  ", v.String())
	}
	fmt.Printf("nontrivial=%v loghash=%x io=%v probes=%v faults=%v images=%d\n", res.Nontrivial, res.LogHash, res.IO, res.Probes, res.Faults, res.Images)
	return 0
}

func cmdReplay(args []string) int {
	fs := flag.NewFlagSet("replay", flag.ExitOnError)
	file := fs.String("file", "", "")
	deep := fs.Bool("deep", false, "debug: run the deep executor on the program without its snapshot faults")
	fs.Parse(args)
	rp, err := check.ReadReplay(*file)
	if err != nil {
		fmt.Fprintln(os.Stderr, "replay:", err)
		return 2
	}
	if *deep {
		s := check.Specs[rp.Prop]
		q := check.StripSnapFaults(rp.Program)
		res := s.Deep(rp.Seed, q)
		small := check.Shrink(s, rp.Seed, rp.Program, rp.Violation.Sig, 20*time.Second)
		fmt.Printf("shrunk:\n%s", small.String())
		fmt.Printf("deep: images=%d\n", res.Images)
		for _, v := range res.Viol {
			fmt.Println("  ", v.String(), "SIG", v.Sig)
		}
		return 0
	}
	if rp.Violation.Class == "hang" && os.Getenv("NUTSIM_HANG_CHILD") == "" {
		return hangReplay(*file, true)
	}
	if rp.Violation.Class == "race" && os.Getenv("NUTSIM_RACE_LOG") == "" {
		return raceReplay(*file, true)
	}
	ok, vs := check.Reproduce(rp)
	fmt.Printf("replay %s property=%s seed=%d\n%s", *file, rp.Prop, rp.Seed, rp.Program.String())
	for _, v := range vs {
		fmt.Println("  ", v.String())
	}
	if ok {
		fmt.Printf("REPRODUCED property=%s sig=%s\n", rp.Prop, rp.Violation.Sig)
		return 1
	}
	fmt.Printf("NOT-REPRODUCED property=%s sig=%s\n", rp.Prop, rp.Violation.Sig)
	return 0
}

// raceReplay re-executes a replay file in the race-detector build (a fresh
// process with its own GORACE log) and returns its exit status (1 = reproduced).
func raceReplay(file string, verbose bool) int {
	raceBin := os.Getenv("NUTSIM_RACE_BIN")
	if _, err := os.Stat(raceBin); err != nil {
		fmt.Fprintln(os.Stderr, "replay: this is a data-race replay and the race-detector build is missing (NUTSIM_RACE_BIN)")
		return 2
	}
	tmp, err := os.MkdirTemp(scratchParent(), "nutsim-race.")
	if err != nil {
		return 2
	}
	defer os.RemoveAll(tmp)
	os.WriteFile(filepath.Join(tmp, "tsan.supp"), []byte("race_top:verifsim/\n"), 0644)
	logp := filepath.Join(tmp, "race")
	cmd := exec.Command(raceBin, "replay", "-file", file)
	cmd.Env = append(os.Environ(), "NUTSIM_RACE_LOG="+logp, "GORACE=log_path="+logp+" halt_on_error=0 exitcode=0 suppressions="+filepath.Join(tmp, "tsan.supp"))
	if verbose {
		cmd.Stdout = os.Stdout
	}
	cmd.Stderr = os.Stderr
	if err := cmd.Run(); err != nil {
		if ee, ok := err.(*exec.ExitError); ok {
			return ee.ExitCode()
		}
		return 2
	}
	return 0
}

// hangReplay re-executes a replay file of class "hang" in a child process and
// reports 1 (reproduced) when the child is still running after RunTimeout.
func hangReplay(file string, verbose bool) int {
	self, err := os.Executable()
	if err != nil {
		return 2
	}
	cmd := exec.Command(self, "replay", "-file", file)
	cmd.Env = append(os.Environ(), "NUTSIM_HANG_CHILD=1")
	cmd.Stderr = os.Stderr
	if err := cmd.Start(); err != nil {
		return 2
	}
	done := make(chan error, 1)
	go func() { done <- cmd.Wait() }()
	select {
	case <-done:
		if verbose {
			fmt.Printf("NOT-REPRODUCED (the run finished) file=%s\n", file)
		}
		return 0
	case <-time.After(check.RunTimeout):
		cmd.Process.Kill()
		<-done
		if verbose {
			fmt.Printf("REPRODUCED: the run is still executing after %v file=%s\n", check.RunTimeout, file)
		}
		return 1
	}
}

// childReplay re-executes a replay file in a child process with a time-out:
// 1 = reproduced, 0 = not reproduced, 4 = the run does not return, 2 = trouble.
// Everything the parent of a check re-executes goes through a child, so that a
// run that hangs inside nutsdb cannot hang the check itself.
func childReplay(file string) int {
	self, err := os.Executable()
	if err != nil {
		return 2
	}
	cmd := exec.Command(self, "replay", "-file", file)
	cmd.Env = append(os.Environ(), "NUTSIM_HANG_CHILD=1")
	cmd.Stderr = os.Stderr
	if err := cmd.Start(); err != nil {
		return 2
	}
	done := make(chan error, 1)
	go func() { done <- cmd.Wait() }()
	select {
	case err := <-done:
		if err == nil {
			return 0
		}
		if ee, ok := err.(*exec.ExitError); ok && ee.ExitCode() == 1 {
			return 1
		}
		return 2
	case <-time.After(check.RunTimeout):
		cmd.Process.Kill()
		<-done
		return 4
	}
}

// cmdShrinkOne minimises one failure (a check.Failure in -in) and writes the
// replay (-out); exit 0 = replays deterministically, 3 = it does not.
func cmdShrinkOne(args []string) int {
	fs := flag.NewFlagSet("shrinkone", flag.ExitOnError)
	in := fs.String("in", "", "")
	out := fs.String("out", "", "")
	fs.Parse(args)
	b, err := os.ReadFile(*in)
	if err != nil {
		return 2
	}
	var f check.Failure
	if err := json.Unmarshal(b, &f); err != nil {
		return 2
	}
	s := check.Specs[f.Prop]
	if s == nil || len(f.Viol) == 0 {
		return 2
	}
	sig := f.Viol[0].Sig
	small := check.Shrink(s, f.Seed, f.Program, sig, 40*time.Second)
	res := s.Exec(f.Seed, small)
	if len(res.Trace) > 0 {
		// record the schedule that was taken: the replay follows it choice by choice
		small.Schedule = res.Trace
		small = check.MinimizeSchedule(s, f.Seed, small, sig, 15*time.Second)
		res = s.Exec(f.Seed, small)
	}
	var hit *check.Replay
	for _, v := range res.Viol {
		if v.Sig == sig {
			vv := v
			hit = &check.Replay{Prop: s.ID, Seed: f.Seed, Tier: f.Tier, Program: small, Violation: vv, All: res.Viol, Original: f.Program}
			break
		}
	}
	if hit == nil {
		// shrinking lost it (should not happen): fall back to the original program
		hit = &check.Replay{Prop: s.ID, Seed: f.Seed, Tier: f.Tier, Program: f.Program, Violation: f.Viol[0], All: f.Viol}
	}
	stable := true
	for i := 0; i < 3; i++ {
		if ok, _ := check.Reproduce(hit); !ok {
			stable = false
		}
	}
	if !stable {
		hit.Note = "WARNING: did not reproduce 3/3 times in-process"
	}
	if err := check.WriteReplay(*out, hit); err != nil {
		return 2
	}
	if !stable {
		return 3
	}
	return 0
}

// shrinkInChild runs cmdShrinkOne in a child with a time-out; it returns the
// child's exit status, or 4 when it had to be killed.
func shrinkInChild(f check.Failure, outPath string) int {
	self, err := os.Executable()
	if err != nil {
		return 2
	}
	tmp, err := os.MkdirTemp(scratchParent(), "nutsim-shrink.")
	if err != nil {
		return 2
	}
	defer os.RemoveAll(tmp)
	b, _ := json.Marshal(f)
	in := filepath.Join(tmp, "failure.json")
	if err := os.WriteFile(in, b, 0644); err != nil {
		return 2
	}
	cmd := exec.Command(self, "shrinkone", "-in", in, "-out", outPath)
	cmd.Stderr = os.Stderr
	if err := cmd.Start(); err != nil {
		return 2
	}
	done := make(chan error, 1)
	go func() { done <- cmd.Wait() }()
	select {
	case err := <-done:
		if err == nil {
			return 0
		}
		if ee, ok := err.(*exec.ExitError); ok {
			return ee.ExitCode()
		}
		return 2
	case <-time.After(55*time.Second + 2*check.RunTimeout):
		cmd.Process.Kill()
		<-done
		return 4
	}
}

func scratchParent() string {
	if p := os.Getenv("VERIF_SCRATCH"); p != "" {
		return p
	}
	return os.TempDir()
}

func cmdCheck(args []string) int {
	fs := flag.NewFlagSet("check", flag.ExitOnError)
	prop := fs.String("prop", "", "")
	tier := fs.String("tier", "quick", "")
	secsFlag := fs.Float64("secs", 0, "override the wall budget of the search")
	workers := fs.Int("workers", 0, "")
	fs.Parse(args)
	s := check.Specs[*prop]
	if s == nil {
		fmt.Fprintln(os.Stderr, "unknown property", *prop)
		return 2
	}
	if t := os.Getenv("VERIF_TIER"); t != "" && (t == "quick" || t == "thorough") && *tier == "" {
		*tier = t
	}
	start := time.Now()
	seed := envSeed()
	secs := float64(s.QuickSecs)
	if secs == 0 {
		secs = 45
	}
	if *tier == "thorough" {
		secs = float64(s.ThoroughSecs)
		if secs == 0 {
			secs = 600
		}
	}
	if *secsFlag > 0 {
		secs = *secsFlag
	}
	nw := *workers
	if nw <= 0 {
		nw = runtime.NumCPU()
		if nw > 16 {
			nw = 16
		}
	}
	tmp, err := os.MkdirTemp(scratchParent(), "nutsim-run.")
	if err != nil {
		fmt.Fprintln(os.Stderr, "check:", err)
		return 2
	}
	defer os.RemoveAll(tmp)

	self, _ := os.Executable()
	type wproc struct {
		cmd *exec.Cmd
		out string
	}
	var procs []wproc
	// race-detector build: a share of the workers runs the same search under
	// ThreadSanitizer (scheduler hand-off hidden from it, see core/sched.go)
	raceBin := os.Getenv("NUTSIM_RACE_BIN")
	raceWorkers := 0
	if s.Race {
		if _, err := os.Stat(raceBin); err != nil {
			fmt.Fprintln(os.Stderr, "check: the race-detector build is missing (NUTSIM_RACE_BIN) — tool trouble")
			return 2
		}
		raceWorkers = nw / 2
		os.WriteFile(filepath.Join(tmp, "tsan.supp"), []byte("race_top:verifsim/\n"), 0644)
	}
	for k := 0; k < nw; k++ {
		out := filepath.Join(tmp, fmt.Sprintf("w%d.json", k))
		bin := self
		env := append(os.Environ(), "GOMAXPROCS=2")
		if k < raceWorkers {
			bin = raceBin
			logp := filepath.Join(tmp, fmt.Sprintf("race%d", k))
			env = append(env, "NUTSIM_RACE_LOG="+logp, "GORACE=log_path="+logp+" halt_on_error=0 exitcode=0 suppressions="+filepath.Join(tmp, "tsan.supp"))
		}
		// race workers use their own run indexes (offset) so that both builds explore different seeds
		cmd := exec.Command(bin, "worker", "-prop", s.ID, "-tier", *tier, "-seed", strconv.FormatUint(seed, 10),
			"-k", strconv.Itoa(k), "-stride", strconv.Itoa(nw), "-secs", fmt.Sprintf("%g", secs), "-out", out)
		cmd.Stderr = os.Stderr
		cmd.Env = env
		if err := cmd.Start(); err != nil {
			fmt.Fprintln(os.Stderr, "check: cannot start worker:", err)
			return 2
		}
		procs = append(procs, wproc{cmd, out})
	}
	hangs := 0
	crashed := 0
	agg := &check.WorkerOut{Prop: s.ID, Probes: map[string]int{}, Faults: map[string]int{}, IO: map[string]int{}}
	distinct := map[uint64]bool{}
	states := map[uint64]bool{}
	scheds := map[uint64]bool{}
	// one deadline for all workers: the search budget, the worker's own hang
	// watchdog (RunTimeout + sampling) and a margin
	killAt := time.Now().Add(time.Duration(secs*float64(time.Second)) + check.RunTimeout + 90*time.Second)
	for _, p := range procs {
		done := make(chan error, 1)
		go func() { done <- p.cmd.Wait() }()
		var werr error
		wait := time.Until(killAt)
		if wait < time.Second {
			wait = time.Second
		}
		select {
		case werr = <-done:
		case <-time.After(wait):
			p.cmd.Process.Kill()
			<-done
			hangs++
			continue
		}
		if werr != nil {
			crashed++
			fmt.Fprintln(os.Stderr, "check: worker failed:", werr)
			continue
		}
		b, err := os.ReadFile(p.out)
		if err != nil {
			crashed++
			continue
		}
		var wo check.WorkerOut
		if err := json.Unmarshal(b, &wo); err != nil {
			crashed++
			continue
		}
		agg.Runs += wo.Runs
		for _, h := range wo.Distinct {
			distinct[h] = true
		}
		for _, h := range wo.States {
			states[h] = true
		}
		for _, h := range wo.Schedules {
			scheds[h] = true
		}
		for k, v := range wo.Probes {
			agg.Probes[k] += v
		}
		for k, v := range wo.Faults {
			agg.Faults[k] += v
		}
		for k, v := range wo.IO {
			agg.IO[k] += v
		}
		agg.SimNS += wo.SimNS
		agg.Images += wo.Images
		agg.Inconcl += wo.Inconcl
		agg.Aborted += wo.Aborted
		agg.Yields += wo.Yields
		agg.Switches += wo.Switches
		agg.Failures = append(agg.Failures, wo.Failures...)
		if len(agg.Samples) < 3 {
			agg.Samples = append(agg.Samples, wo.Samples...)
		}
	}
	if hangs > 0 || crashed > 0 {
		// a hung or crashed worker is tool trouble, never a verdict of its own;
		// failures that the other workers found and that replay are still reported
		fmt.Fprintf(os.Stderr, "check: %d worker(s) hung, %d crashed\n", hangs, crashed)
		if len(agg.Failures) == 0 {
			fmt.Fprintln(os.Stderr, "check: tool trouble, not a verdict")
			return 2
		}
	}
	searchWall := time.Since(start).Seconds()

	// ---- failures: shrink, verify the replay three times, announce
	violations := 0
	unconfirmedRaces := 0
	sort.Slice(agg.Failures, func(i, j int) bool { return agg.Failures[i].Run < agg.Failures[j].Run })
	seenSig := map[string]bool{}
	os.MkdirAll(filepath.Join(verifDir, "replays"), 0755)
	for _, f := range agg.Failures {
		sig := f.Viol[0].Sig
		if seenSig[sig] || len(seenSig) >= 3 {
			continue
		}
		seenSig[sig] = true
		if f.Viol[0].Class == "hang" {
			// an API call that does not return: not shrunk (every candidate
			// would have to be run to the time-out in a process of its own);
			// confirmed once in a fresh process
			path := filepath.Join(verifDir, "replays", fmt.Sprintf("%s-%d.json", s.ID, f.Seed))
			hit := &check.Replay{Prop: s.ID, Seed: f.Seed, Tier: *tier, Program: f.Program, Violation: f.Viol[0], All: f.Viol, Note: "hang: not minimised"}
			if err := check.WriteReplay(path, hit); err != nil {
				fmt.Fprintln(os.Stderr, "check: cannot write replay:", err)
				return 2
			}
			if hangReplay(path, false) != 1 {
				fmt.Fprintf(os.Stderr, "check: the hang of run %d (seed %d) did not reproduce in a fresh process; reported as tool trouble\n", f.Run, f.Seed)
				return 2
			}
			violations++
			fmt.Printf("VIOLATION property=%s replay=%s\n", s.ID, path)
			fmt.Printf("  %s\n", firstLines(hit.Violation.Msg, 12))
			fmt.Print(indent(hit.Program.String(), "  "))
			continue
		}
		if f.Viol[0].Class == "race" {
			// found by the race-detector build: not shrunk (the detector bounds
			// its history, shrinking changes what it remembers); replayed three
			// times in fresh race-build processes
			path := filepath.Join(verifDir, "replays", fmt.Sprintf("%s-%d.json", s.ID, f.Seed))
			hit := &check.Replay{Prop: s.ID, Seed: f.Seed, Tier: *tier, Program: f.Program, Violation: f.Viol[0], All: f.Viol}
			if err := check.WriteReplay(path, hit); err != nil {
				return 2
			}
			if check.IsKnownSig(s, sig) {
				continue // attributed to a listed finding; its witness is re-run below
			}
			// ThreadSanitizer evicts shadow cells at random, so a genuine race can
			// go unreported in a replay (a report is never a false positive): up to
			// six fresh race-build processes, announced once it reproduced twice
			n, tries := 0, 0
			for tries < 6 && n < 2 {
				tries++
				if raceReplay(path, false) == 1 {
					n++
				}
			}
			if n == 0 {
				unconfirmedRaces++
				fmt.Fprintf(os.Stderr, "check: data race of run %d (seed %d, %s) did not reproduce in %d fresh processes; not announced\n", f.Run, f.Seed, sig, tries)
				os.Remove(path)
				continue
			}
			hit.Note = fmt.Sprintf("reproduced %d times in %d fresh race-detector processes", n, tries)
			check.WriteReplay(path, hit)
			violations++
			fmt.Printf("VIOLATION property=%s replay=%s\n", s.ID, path)
			fmt.Printf("  %s\n", firstLines(hit.Violation.Msg, 40))
			continue
		}
		path := filepath.Join(verifDir, "replays", fmt.Sprintf("%s-%d.json", s.ID, f.Seed))
		f.Tier = *tier
		var hit *check.Replay
		switch st := shrinkInChild(f, path); st {
		case 0:
			rp, err := check.ReadReplay(path)
			if err != nil {
				fmt.Fprintln(os.Stderr, "check: cannot read the minimised replay:", err)
				return 2
			}
			hit = rp
		case 3:
			fmt.Fprintf(os.Stderr, "check: failure of run %d (seed %d) did not replay deterministically; reported as tool trouble\n", f.Run, f.Seed)
			return 2
		case 4:
			// minimisation did not finish (some candidate run does not return):
			// report the program as found, after confirming it in a child
			hit = &check.Replay{Prop: s.ID, Seed: f.Seed, Tier: *tier, Program: f.Program, Violation: f.Viol[0], All: f.Viol, Note: "not minimised: a candidate run of the minimisation did not return"}
			if err := check.WriteReplay(path, hit); err != nil {
				return 2
			}
			switch childReplay(path) {
			case 1:
			case 4:
				hit.Violation = run.Violation{Class: "hang", StepID: -1, Op: -1, Sig: "hang/in-replay", Msg: "the run does not return within " + check.RunTimeout.String() + " when replayed in a fresh process (first seen as: " + f.Viol[0].Msg + ")"}
				check.WriteReplay(path, hit)
			default:
				fmt.Fprintf(os.Stderr, "check: failure of run %d (seed %d) could neither be minimised nor replayed; reported as tool trouble\n", f.Run, f.Seed)
				return 2
			}
		default:
			fmt.Fprintf(os.Stderr, "check: minimisation of run %d (seed %d) failed (status %d); tool trouble\n", f.Run, f.Seed, st)
			return 2
		}
		violations++
		fmt.Printf("VIOLATION property=%s replay=%s\n", s.ID, path)
		fmt.Printf("  %s\n", hit.Violation.String())
		fmt.Print(indent(hit.Program.String(), "  "))
	}

	// ---- regression witnesses of repaired defects: a fixed entry suppresses
	// nothing; if one of them fails again it is reported like any violation
	regs, _ := filepath.Glob(filepath.Join(verifDir, "regress", s.ID+"-*.json"))
	sort.Strings(regs)
	regressRun := 0
	for _, path := range regs {
		rp, err := check.ReadReplay(path)
		if err != nil {
			fmt.Fprintln(os.Stderr, "check: bad regression witness", path, err)
			return 2
		}
		regressRun++
		if rp.Violation.Class == "race" {
			if raceReplay(path, false) == 1 || raceReplay(path, false) == 1 {
				violations++
				fmt.Printf("VIOLATION property=%s replay=%s\n", s.ID, path)
				fmt.Printf("  (regression of a repaired defect) data race %s\n", rp.Violation.Sig)
			}
			continue
		}
		switch childReplay(path) {
		case 1:
			violations++
			fmt.Printf("VIOLATION property=%s replay=%s\n", s.ID, path)
			fmt.Printf("  (regression of a repaired defect) %s\n", rp.Violation.String())
		case 4:
			violations++
			fmt.Printf("VIOLATION property=%s replay=%s\n", s.ID, path)
			fmt.Printf("  (witness of a repaired defect) the run does not return within %v\n", check.RunTimeout)
		case 2:
			fmt.Fprintln(os.Stderr, "check: cannot replay regression witness", path)
			return 2
		}
	}

	// ---- known findings: every listed witness must still reproduce
	check.ReproduceHook = func(rp *check.Replay) (bool, bool) {
		tmp, err := os.MkdirTemp(scratchParent(), "nutsim-known.")
		if err != nil {
			return false, false
		}
		defer os.RemoveAll(tmp)
		fp := filepath.Join(tmp, "witness.json")
		if err := check.WriteReplay(fp, rp); err != nil {
			return false, false
		}
		st := childReplay(fp)
		return st == 1, st == 4
	}
	kn := check.RunKnown(s, os.Stdout)

	// ---- evidence
	ev := map[string]interface{}{
		"property_id": s.ID,
		"tier":        *tier,
		"seed":        seed,
		"level":       s.Level,
		"wall_s":      time.Since(start).Seconds(),
		"violations":  violations,
		"assumptions": append([]string{"the simulated disk, clock and scheduler model the real ones faithfully (DESIGN.md §2)"}, s.Assume...),
	}
	samples := []interface{}{}
	for _, sm := range agg.Samples {
		var v interface{}
		json.Unmarshal(sm, &v)
		samples = append(samples, v)
	}
	if len(samples) > 3 {
		samples = samples[:3]
	}
	cov := map[string]interface{}{
		"evaluations":                   agg.Runs,
		"distinct_nontrivial":           len(distinct),
		"rule":                          s.Rule,
		"samples":                       samples,
		"runs_per_hour":                 int(float64(agg.Runs) / searchWall * 3600),
		"seeds_per_hour":                int(float64(agg.Runs) / searchWall * 3600),
		"simulated_seconds":             float64(agg.SimNS) / 1e9,
		"faults_fired":                  agg.Faults,
		"io_points_by_kind":             agg.IO,
		"probes":                        agg.Probes,
		"distinct_model_states":         len(states),
		"distinct_schedules":            len(scheds),
		"crash_images_judged":           agg.Images,
		"inconclusive":                  agg.Inconcl,
		"aborted_runs":                  agg.Aborted,
		"scheduler_yields":              agg.Yields,
		"scheduler_switches":            agg.Switches,
		"workers":                       nw,
		"race_detector_workers":         raceWorkers,
		"search_wall_s":                 searchWall,
		"known_findings_checked":        kn,
		"regression_witnesses_replayed": regressRun,
		"components_real":               []string{"nutsdb (package nutsdb, ds/list, ds/set, ds/zset) built from /repo's working tree", "bwmarrin/snowflake", "xujiajun/utils/filesystem", "xujiajun/utils/strconv2", "Go runtime"},
		"components_simulated":          []string{"file system + page cache (simos/simioutil)", "mmap (simmmap)", "wall clock (simtime)", "math/rand (simrand)", "choice of running goroutine at sync/io points (simsync + scheduler)"},
	}
	ev["coverage"] = cov
	b, _ := json.MarshalIndent(ev, "", " ")
	os.MkdirAll(filepath.Join(verifDir, "evidence"), 0755)
	if err := os.WriteFile(filepath.Join(verifDir, "evidence", s.ID+".json"), b, 0644); err != nil {
		fmt.Fprintln(os.Stderr, "check: cannot write evidence:", err)
		return 2
	}
	fmt.Printf("%s %s: runs=%d distinct_nontrivial=%d states=%d images=%d faults=%v violations=%d known=%d wall=%.1fs\n",
		s.ID, *tier, agg.Runs, len(distinct), len(states), agg.Images, agg.Faults, violations, kn, time.Since(start).Seconds())
	if violations > 0 {
		return 1
	}
	if hangs > 0 || crashed > 0 {
		fmt.Fprintln(os.Stderr, "check: workers hung or crashed and no violation was confirmed — tool trouble, not a verdict")
		return 2
	}
	if unconfirmedRaces > 0 {
		fmt.Fprintf(os.Stderr, "check: %d data race report(s) could not be reproduced from their replay files — tool trouble, not a verdict\n", unconfirmedRaces)
		return 2
	}
	if agg.Runs == 0 {
		fmt.Fprintln(os.Stderr, "check: no runs executed")
		return 2
	}
	return 0
}

func firstLines(s string, n int) string {
	lines := strings.Split(s, "\n")
	if len(lines) > n {
		lines = lines[:n]
	}
	return strings.Join(lines, "\n  ")
}

func indent(s, pre string) string {
	lines := strings.Split(strings.TrimRight(s, "\n"), "\n")
	for i := range lines {
		lines[i] = pre + lines[i]
	}
	return strings.Join(lines, "\n") + "\n"
}
