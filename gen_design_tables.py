#!/usr/bin/env python3
# Regenerates the two generated blocks of DESIGN.md from known_findings.json and seeded/*/meta.json.
import json, glob, re
p = '/verif/DESIGN.md'
s = open(p).read()
k = json.load(open('/verif/known_findings.json'))
out = ['**Known findings (not repaired; each run re-demonstrates them from the witness)**', '']
out += ['| id | property | what fails | generators avoid it by | witness |', '|---|---|---|---|---|']
for f in k['findings']:
    out.append('| %s | %s | %s | %s | `%s` |' % (f['id'], f['property'], f['what'].replace('|', '\\|'), f['avoid'].replace('|', '\\|'), f['witness']))
out += ['', '**Repaired defects (`fixed:` entries; a fixed entry suppresses nothing)**', '']
for line in k['fixed']:
    out.append('* ' + line[len('fixed: '):].replace('|', '\\|'))
s = re.sub(r'<!-- FINDINGS-BEGIN -->.*?<!-- FINDINGS-END -->', lambda m: '<!-- FINDINGS-BEGIN -->\n' + '\n'.join(out) + '\n<!-- FINDINGS-END -->', s, flags=re.S)
rows = ['| seeded change | aimed at | needs, in order to manifest | caught by |', '|---|---|---|---|']
for d in sorted(glob.glob('/verif/seeded/*')):
    m = json.load(open(d + '/meta.json'))
    rows.append('| %s | %s | %s | %s |' % (m['id'], m['breaks_property'], m['needs_to_manifest'].replace('|', '\\|'), ', '.join(m['caught_by']) if m['caught_by'] else '— (no verdict: ' + m.get('not_decided','')[:160] + ' …)'))
s = re.sub(r'<!-- SEEDED-BEGIN -->.*?<!-- SEEDED-END -->', lambda m: '<!-- SEEDED-BEGIN -->\n' + '\n'.join(rows) + '\n<!-- SEEDED-END -->', s, flags=re.S)
brow = ['| behaviour-preserving change | what it changes internally | result of running all checks against it |', '|---|---|---|']
for d in sorted(glob.glob('/verif/benign/*')):
    m = json.load(open(d + '/meta.json'))
    brow.append('| %s | %s | %s |' % (m['id'], m['what'].replace('|', '\\|'), m['result'].replace('|', '\\|')))
s = re.sub(r'<!-- BENIGN-BEGIN -->.*?<!-- BENIGN-END -->', lambda m: '<!-- BENIGN-BEGIN -->\n' + '\n'.join(brow) + '\n<!-- BENIGN-END -->', s, flags=re.S)
open(p, 'w').write(s)
print('DESIGN.md tables regenerated:', len(k['findings']), 'findings,', len(k['fixed']), 'fixed,', len(rows) - 2, 'seeded')
