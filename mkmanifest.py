#!/usr/bin/env python3
# Generates /verif/MANIFEST.json from the table below (one entry per claimed
# property) and lists every other property under not_applicable.
import json

CHECKS = {
 "C01": dict(cat="exploration", tech="deterministic simulation: seeded KV histories on simulated disk + clock, refinement against an ordered-map+TTL reference model after every step",
   text="Seeded search over KV histories x clock trajectories (TTL boundaries) x RAM index modes x FileIO/MMap x loading modes with the real nutsdb code on a simulated disk and clock; every read over the run's finite universe is compared with the reference model after every step. A clean batch is evidence, not proof.",
   note="Trusted: the simulated file system, the reference model; timestamps within +-61 s of now; monotone clock."),
 "C05": dict(cat="exploration", tech="deterministic simulation: seeded list histories through transactions with clean reopens, refinement against a Redis-style list model",
   text="Seeded list histories (all list calls, indexes -8..7, values with '|' and empty) through the transaction API with reopens on the simulated disk; each call and a full observation after each step are compared with a Redis-style model; open conventions (out-of-range bounds) accept clamped-or-error.",
   note="The exhaustive bounded enumeration of the bare ds/list type asked for by the quantifier is a pure-function target and is not claimed; transactions never depend on their own earlier writes (C13)."),
 "C06": dict(cat="exploration", tech="deterministic simulation: seeded set histories through transactions with clean reopens, refinement against a set model (SPop resolved by observation)",
   text="Seeded set histories over one and two buckets incl. SMove* and SPop, reopens; each call and full observations compared with a set model.",
   note="Known finding K1 (empty member cannot be removed) is avoided narrowly (no empty set member) and re-demonstrated from its witness on every run. Bare ds/set enumeration not claimed."),
 "C07": dict(cat="exploration", tech="deterministic simulation: seeded sorted-set histories with seeded skip-list levels (math/rand shim), refinement against a (score,key)-ordered model",
   text="Seeded sorted-set histories with ties, the empty member key, all query bounds in both orders with exclusive flags and limits; skip-list level layout comes from the seeded math/rand stream and varies per run; every call and full observations compared with the model; reopens.",
   note="Scores are finite; bare ds/zset enumeration not claimed."),
 "C08": dict(cat="exploration", tech="deterministic simulation: seeded mixed histories, model-independent comparison of the full observation before Close and after Open at a held clock",
   text="Seeded mixed KV/list/set/zset histories incl. failed and rolled-back transactions; at each reopen the full observation just before Close must equal the one just after Open at the same simulated instant.",
   note="Structures other than KV are exercised in key+value mode only (the only mode that supports them)."),
 "C10": dict(cat="fault_enumeration", tech="deterministic simulation with crash injection: crash and torn-write images at file-mutation points, recovery judged against the model states S / S+T",
   text="Crash images (page cache survives) at a seeded sample of the file-mutation points of every run (thorough: all), plus torn prefixes of writes at record-field boundaries, in FileIO and MMap, SyncEnable on/off, with same-millisecond transactions and failed commits; every image is mounted, opened and fully observed and must equal the acknowledged state or that plus the in-flight transaction. One run in seven is a scheduled multi-goroutine program: the image must show a prefix of the lock-grant order that contains every acknowledged write transaction and only transactions that had been granted the lock.",
   note="Process-crash model: completed writes survive, the write in flight survives as a prefix. Restart takes >= 1 ms."),
 "C11": dict(cat="fault_enumeration", tech="deterministic simulation with power-loss injection: per-file durable image + seeded subset/prefix/torn unsynced operations, recovery judged against S / S+T",
   text="As C10 with SyncEnable=true and power-loss images: files revert to their last-synced content plus a seeded choice among unsynced operations; unsynced creations may vanish and removals may be undone. One run in seven is a sparse-index-mode history with power-loss images of the quiescent state after every transaction, Merge and reopen; one in eight is a scheduled multi-goroutine program judged like C10's scheduled sub-batch.",
   note="Assumes (as the property grants) that a sync of a file persists its directory entry, and that directories are durable once created."),
 "C13": dict(cat="exploration", tech="deterministic simulation: self-reading multi-op transactions judged by a strict sequential model, with deviant-model attribution of the recorded known finding",
   text="Seeded write transactions that read/pop structures they already modified, judged by the strict sequential model; runs the strict model rejects are excused only when the single deviant switch (evaluate on the start state, apply at commit) explains every result and observation.",
   note="Known finding K2: nutsdb buffers writes until Commit (no read-your-writes) by design."),
 "C09": dict(cat="fault_enumeration", tech="deterministic simulation with crash injection: crash and torn-write images at file-mutation points of every kind of history (incl. inside Open and Merge); Open must return nil on each",
   text="Every kind of history the other checks generate (all index modes, all structures, no-op-at-commit operations, reads of never-written buckets, exact-fill segments, merges, reopens, dirty restarts) with crash/torn images at a seeded sample (thorough: all) of the file-mutation points, every RWMode and StartFileLoadingMode; Open on every image and every in-run reopen must succeed without panic.",
   note="Known finding K3: in HintBPTSparseIdxMode index/meta files are not updated atomically, so crash images are taken in the RAM index modes only; sparse runs check Open after clean closes and dirty restarts between transactions."),
 "C12": dict(cat="fault_enumeration", tech="deterministic simulation with I/O-error injection: one seeded write/short-write/sync/open/truncate fault inside a chosen commit; refinement of all observations against the model without the failed transaction",
   text="Histories in which transactions end by function error, Rollback, oversized entry at any position or one injected I/O fault at a seeded I/O point of their commit (incl. the rotation it triggers); read-only transactions calling mutating APIs; calls on finished transactions; the full observation after every step and after reopen must equal the model in which those transactions never happened (sync error: all-or-nothing).",
   note="RAM index modes. Whether the database accepts further writes after an injected error is not part of the property (probe only)."),
 "C15": dict(cat="exploration", tech="deterministic simulation: seeded histories with Merge at seeded points (also failing through injected I/O errors), refinement of full observations against a model in which Merge is a no-op",
   text="KV (TTL, deletes, failed transactions; both RAM modes), sets and sorted sets (ZAdd/ZRem) with 64-256 B segments; Merge at seeded points, twice in a row, failing via injected open/truncate/remove/read/write errors; later writes; reopen; every observation equals the model; a Merge that fails although no fault was injected is a violation (the simulated process has 24 descriptors).",
   note="Known findings K4 (positional sorted-set removals under a partial Merge) and K5 (lists under Merge) are avoided narrowly and re-demonstrated from their witnesses."),
 "C16": dict(cat="fault_enumeration", tech="deterministic simulation with crash injection inside Merge: crash and torn images at Merge's file-mutation points, recovery must equal the pre-Merge model state",
   text="C15's histories with crash and torn-write images at the file-mutation points inside Merge (quick: half, thorough: all); each image is mounted, opened and fully observed and must equal the state before Merge. One run in five runs Merge beside 2-5 scheduled tasks of View/Update transactions; an image from inside Merge must show a prefix of the lock-grant order between 'acknowledged' and 'granted'.",
   note="Known finding K4a (positional sorted-set removals) and K5 (lists) avoided as in C15."),
 "C02": dict(cat="exploration", tech="deterministic simulation: seeded single-bucket KV histories in sparse index mode with small segments and clean reopens, refinement against the ordered-map+TTL model",
   text="Seeded Put/PutWithTimestamp/Delete/TTL histories in HintBPTSparseIdxMode with segments of a few hundred bytes (most keys live in sealed segments behind on-disk B+ tree, root-index and tx-id files), interleaved with Close/Open and clock moves; Get of every key, GetAll, RangeScan (incl. ranges strictly inside one segment's span) and PrefixScan without limit compared with the model after every step.",
   note="Single-bucket histories with unambiguous bucket+key concatenations (the ambiguous case is C04 / known finding K6)."),
 "C03": dict(cat="exploration", tech="deterministic simulation: seeded KV histories with tombstones and expiry in all three index modes, then systematic (prefix, offset, limit, regexp) paging compared with a model that pages over live keys",
   text="After seeded histories with many dead keys, every PrefixScan(offset in 0..n+1, limit in 1..n+1 and no limit) for every bucket and up to 3 prefixes, plus PrefixSearchScan with offset 0 over several regular expressions, in both RAM modes and sparse mode; results must equal the model's page over live prefixed keys.",
   note="limit = 0, negative offsets and the returned off value are outside the statement."),
 "C04": dict(cat="exploration", tech="deterministic simulation: seeded histories over adversarially named buckets and keys in all index modes and structures, refinement against a model with independent per-bucket namespaces",
   text="Two to four buckets with names that are prefixes of each other / equal to keys / empty / contain '|' and keys chosen so that bucket+key concatenations coincide; KV in all index modes, lists/sets/sorted sets in key+value mode; single-bucket transactions; reopens; every read of every bucket compared with the model after every step.",
   note="Known finding K6 (sparse mode indexes by the bare concatenation bucket+key) is avoided in sparse mode only, by equal-length bucket names; it is re-demonstrated from its witness."),
 "C19": dict(cat="exploration", tech="deterministic simulation: the same seeded program executed in 8-24 worlds that differ only in storage options, with identical simulated clock and seeded math/rand, call-by-call differential comparison",
   text="One seeded program per run executed once for every combination of RWMode x StartFileLoadingMode x SyncEnable (KV-only programs also x the three index modes); every call result, every commit outcome and the full observation after a final reopen must equal those of the reference combination. A third of the programs change the SegmentSize at some of their reopens.",
   note="SPop is not issued (Go map order); an empty scan result and the not-found error count as the same answer."),
 "C20": dict(cat="exploration", tech="deterministic simulation used for seeded stateful API fuzzing with boundary-heavy arguments and lifecycle misuse; oracle: no recovered panic in any call, Commit or Open",
   text="Boundary-heavy arguments (int64 extremes, NaN/Inf, separators, empty names, bad regexps) in arbitrary order, in self-modifying transactions, read-only transactions, finished transactions, on a closed database (Update/View/Merge/Backup/Close), Update(nil), with reopens; one run in five is a scheduled program in which one task calls Close (others: transactions, Merge, Backup) at a seeded point of the others' Begin/Commit paths; no call, later Commit or later Open may panic.",
   note="Fault-free. The simulator contributes persistent state (closed, finished, reopened), the interleaving of Close with running calls, determinism and shrinking."),
 "C22": dict(cat="exploration", tech="deterministic simulation: directories produced by seeded histories (incl. crash images and merged directories) reopened with every other index mode; refusal + byte-identical tree, or equal observation",
   text="For every image (clean, never written, written, merged, crashed at a seeded file-mutation point) produced in one index mode, Open with each other mode: sparse<->RAM on a directory holding data must be refused and leave the tree byte-identical; RAM<->RAM must succeed and show the model's contents.",
   note="A directory without any data record need not be refused (the statement speaks of data)."),
 "C14": dict(cat="exploration", tech="deterministic simulation: seeded cooperative scheduler over caller goroutines (yield at every lock, disk and clock operation), history checked by lock-grant witness order with porcupine fallback, plus the same search under the race detector with the scheduler's hand-off hidden from it",
   text="2-16 tasks x 1-4 View/Update transactions x 1-3 databases in one process, all index modes; the scheduler decides every interleaving from the seed; results must be explained by the lock-grant order (else porcupine looks for any real-time-consistent order), read-only transactions repeat a read, no deadlock, final reopen equals the serial result; half of the workers run the race-detector build (runtime.RaceDisable around the scheduler hand-off, so only nutsdb's own synchronisation orders accesses) and report races whose both innermost frames are in nutsdb.",
   note="No TTL in concurrent programs. The race build uses FileIO (mapped bytes would be Go memory in the simulator). ThreadSanitizer's bounded, randomly evicted history can miss races; it has no false positives. Sparse-mode bucket names are of equal length (K6)."),
 "C17": dict(cat="exploration", tech="deterministic simulation: C14's scheduler and oracles with an extra task calling Merge, race-detector build, final reopen vs. serial result",
   text="Mixed View/Update tasks plus a Merge task (RAM index modes; KV, sets, sorted sets with ZAdd/ZRem) under the seeded scheduler; the transactions' history must be serializable with Merge invisible, no data race with both frames in nutsdb, no deadlock, and a clean reopen after the run must show the serial result.",
   note="Lists and positional sorted-set removals are excluded from programs with Merge (K4, K5)."),
 "C18": dict(cat="exploration", tech="deterministic simulation: writer tasks and a Backup task under the seeded scheduler (every file operation of CopyDir is a yield point); the opened backup is compared with the model state at the backup's lock grant",
   text="Writers and readers plus one Backup(dir) task on one database, all index modes and RWModes; the backup directory must open with the same options and show exactly the state after the write transactions granted the lock before the backup's read transaction.",
   note="utils/filesystem.CopyDir is the real code running on the simulated disk."),
 "C21": dict(cat="fault_enumeration", tech="deterministic simulation with stored-byte corruption: round trip through reopen in all index modes, then single bit flips / truncations of record-bearing files with an exact replay oracle (RAM modes) and a genuineness oracle (all modes)",
   text="Seeded KV histories with extreme field values are read back after reopens in all index modes; the closed directory is then damaged one fault at a time (bit flip in the used bytes of a .dat/.bptridx/.meta file, or truncation) and Open, all reads, Merge and a second reopen run on each damaged copy: every returned pair must be a pair some Put stored for that bucket and key, and in the RAM index modes the contents must equal a replay of the stored records with the damaged record (and optionally the rest of its file) absent.",
   note="B+ tree node files carry no checksum and are not damaged; flips in length fields are included: an Open that allocates more than the simulated machine's 1 GiB counts as an Open that died (two defects of this kind were repaired, d6893b9 and 707acb2)."),
}

ORDER = sorted(CHECKS)
ids = [json.loads(l)["id"] for l in open("/verif/properties.jsonl")]
NA = {
}
checks = []
for pid in ORDER:
    c = CHECKS[pid]
    checks.append({
        "property_id": pid,
        "quick_cmd": "./check %s quick" % pid,
        "thorough_cmd": "./check %s thorough" % pid,
        "evidence_file": "/verif/evidence/%s.json" % pid,
        "replay_cmd_template": "./check %s --replay {path}" % pid,
        "engine": "nutsim",
        "technique": c["tech"],
        "level_claimed": {"category": c["cat"], "text": c["text"], "design_ref": "DESIGN.md §6 " + pid},
        "level_note": c["note"],
    })
na = []
for pid in ids:
    if pid not in CHECKS:
        na.append({"property_id": pid, "reason": NA.get(pid, "check under construction in this round (not yet claimed); see DESIGN.md §6 for the plan")})
m = {
 "version": 1,
 "setup_cmd": "cd /verif && ./build.sh /verif/bin/nutsim plain",
 "hooks": {
  "guard": "none: /repo carries no hooks. Every check builds a scratch copy of /repo's working tree in which only import paths are rewritten (os, io/ioutil, time, sync, math/rand, mmap-go, utils/filesystem, snowflake -> verifsim/sim*), so the guard-off baseline is the unchanged test command",
  "enable": "/verif/build.sh <out> [race]  (simrewrite + go build -modfile with replace github.com/xujiajun/nutsdb => scratch copy)",
  "baseline_off_cmd": "/verif/baseline.sh",
  "source_commits": [],
  "add_only": True
 },
 "engines": [{"name": "nutsim", "path": "/verif/sim", "serves_properties": ORDER,
   "kind_free_text": "deterministic simulation with fault injection: the real nutsdb code runs on a simulated disk (page cache + durable image + fault plan), simulated clock, seeded math/rand and a seeded cooperative scheduler; seeded search over programs, fault plans and schedules; reference-model oracles; delta-debugging shrinker; replay files"}],
 "checks": checks,
 "not_applicable": na,
 "notes": "Genuine defects found by the checks were repaired in /repo as 'fix:' commits (listed in known_findings.json under 'fixed', each with a regression witness under /verif/regress that every run of the property replays); defects not repaired are listed under 'findings' with a witness that every run re-demonstrates (KNOWN-FINDING lines)."
}
json.dump(m, open("/verif/MANIFEST.json", "w"), indent=1)
print("wrote MANIFEST.json:", len(checks), "checks,", len(na), "not applicable")
